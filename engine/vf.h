// vf.h - interface between harnesses and the exhaustive-exploration engine (vsched / explorer).
// See /verif/DESIGN.md sections 3, 4, 6.
#pragma once
#include <stddef.h>
#include <stdint.h>
#ifdef __cplusplus
extern "C" {
#endif
typedef void (*vf_fn)(void*);

// ---- entry point: parses the command line, explores `scenario`, writes the JSON summary; returns exit code
int  vf_main(int argc, char** argv, void (*scenario)(void));
// in-process explorer for single-threaded harnesses: scenario(case_index) is re-executed in this process
int  vf_main_cases(int argc, char** argv, long ncases, void (*scenario)(long));

// harness-owned explicit-state search (BFS over event histories on real objects): the harness fills the counters
struct vf_custom_result { long states, transitions, executions, distinct; int depth; int exhaustive; char violation[512]; char trace[1024]; char samples[4][512]; int nsamples; };
int  vf_main_custom(int argc, char** argv, void (*search)(struct vf_custom_result*));

// ---- scenario parameters (-p key=value on the command line)
const char* vf_param(const char* key, const char* dflt);
long        vf_param_int(const char* key, long dflt);

// ---- threads under the controlled scheduler
int  vf_thread(vf_fn fn, void* arg);      // create a scenario thread, returns its id
void vf_join(int id);
int  vf_self(void);                        // id of the calling thread (-1 outside)
void vf_gate_wait(void);                   // park until vf_gate_open()
int  vf_gate_count(void);
void vf_gate_open(void);
int  vf_others_idle(void);                 // 1 if every other thread is blocked, parked or finished (e.g. workers asleep)

// ---- nondeterminism
void vf_window(int on);                    // choice points are generated only while the window is open
int  vf_choose(int n);                     // returns 0 by default; alternative j>0 costs one deviation
void vf_point(void);                       // explicit scheduling point (thread stays enabled)
void vf_yield(void);                       // explicit yield point (spin loops)
void vf_block_on(void* addr);              // block until vf_wake(addr)
void vf_wake(void* addr);

// ---- oracle side
void vf_fail(const char* fmt, ...) __attribute__((format(printf,1,2)));   // violation in this execution (does not return)
void vf_outcome(const char* fmt, ...) __attribute__((format(printf,1,2)));// appended to this execution's outcome string
void vf_finish(void);                      // scenario done: end the execution successfully now
unsigned long vf_stamp(void);              // global logical time stamp (ordered event, part of the HB fingerprint)
unsigned long vf_steps(void);
void vf_log(const char* fmt, ...) __attribute__((format(printf,1,2)));    // only printed in verbose replay
int  vf_nblocks(void);                     // how often the calling thread went to sleep (futex/mutex/once) so far
void vf_on_stuck(const char* (*explain)(void));  // called (hooks off) when the execution ends as deadlock/hang/livelock; a non-null result is appended to the message in [..]
void vf_liveness(int on);                  // a step-horizon hit inside this region is a hang (violation), not inconclusive

// ---- happens-before oracle on harness payload (active with -hb)
void vf_plain_read(const void* addr);
void vf_plain_write(const void* addr);

// ---- watched addresses: log atomic RMWs/stores on [addr,addr+len)
struct vf_watch_ev { int thread; int kind; /*0 load 1 store 2 rmw*/ unsigned long stamp; uint64_t oldv, newv; const void* addr; };
void vf_watch(const void* addr, size_t len);
int  vf_watch_log(const struct vf_watch_ev** out);

// ---- hooks called from guarded source hooks in /repo (ONETBB_VERIF)
void vf_hook_pause(void);                  // machine_pause / prolonged_pause
int  vf_hook_backoff(int dflt);            // stealing-loop thresholds

#ifdef __cplusplus
}
#endif
