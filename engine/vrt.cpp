// vrt.cpp - the atomic runtime: implements the ThreadSanitizer atomic ABI (__tsan_atomicN_*) that clang emits for
// every std::atomic operation when compiling with -fsanitize=thread (linked WITHOUT the sanitizer runtime).
// Every operation is a scheduling point; optional happens-before vector clocks (-hb), optional x86-TSO store
// buffers (-tso), watched addresses.  DESIGN.md sections 2 (F1), 4 (TSO), 6.3, 6.3b.
// Compiled WITHOUT the instrumentation flags.
#include "vf_internal.h"
#include <cstdint>
#include <cstring>
#include <cstdlib>
#include <cstdio>
#include <unordered_map>

#define NT 16
static int m_hb=-1, m_tso=-1;
static inline bool hb_on(){ if(m_hb<0) m_hb=vf_mode_hb(); return m_hb>0; }
static inline bool tso_on(){ if(m_tso<0) m_tso=vf_mode_tso(); return m_tso>0; }

// ------------------------------------------------------------------ happens-before clocks
struct VC{ uint32_t c[NT]; void join(const VC&o){ for(int i=0;i<NT;i++) if(o.c[i]>c[i]) c[i]=o.c[i]; } bool leq(const VC&o)const{ for(int i=0;i<NT;i++) if(c[i]>o.c[i]) return false; return true; } bool any()const{ for(int i=0;i<NT;i++) if(c[i]) return true; return false; } };
static VC C[NT], PEND[NT], FREL[NT], SCF; static bool hb_init=false;
static std::unordered_map<const void*,VC>* RL;
struct Shadow{ int wt; uint32_t wc; VC reads; };
static std::unordered_map<const void*,Shadow>* SH;
static void hb_ensure(){ if(!hb_init){ hb_init=true; RL=new std::unordered_map<const void*,VC>(); SH=new std::unordered_map<const void*,Shadow>(); memset(C,0,sizeof C); memset(PEND,0,sizeof PEND); memset(FREL,0,sizeof FREL); memset(&SCF,0,sizeof SCF); for(int i=0;i<NT;i++) C[i].c[i]=1; } }
static inline bool is_acq(int mo){ return mo==1||mo==2||mo==4||mo==5; }
static inline bool is_rel(int mo){ return mo==3||mo==4||mo==5; }
static void on_load(const void*a,int mo){ if(!hb_on()) return; hb_ensure(); int t=vf_self(); if(t<0) return; auto it=RL->find(a); if(it==RL->end()) return; if(is_acq(mo)) C[t].join(it->second); else PEND[t].join(it->second); }
static void on_store(const void*a,int mo){ if(!hb_on()) return; hb_ensure(); int t=vf_self(); if(t<0) return; if(is_rel(mo)){ (*RL)[a]=C[t]; C[t].c[t]++; } else { if(FREL[t].any()) (*RL)[a]=FREL[t]; else RL->erase(a); } }
static void on_rmw(const void*a,int mo){ if(!hb_on()) return; hb_ensure(); int t=vf_self(); if(t<0) return; auto it=RL->find(a); bool had=it!=RL->end();
  if(had){ if(is_acq(mo)) C[t].join(it->second); else PEND[t].join(it->second); }
  if(is_rel(mo)){ VC&r=(*RL)[a]; if(!had) memset(&r,0,sizeof r); r.join(C[t]); C[t].c[t]++; } else if(FREL[t].any()){ VC&r=(*RL)[a]; if(!had) memset(&r,0,sizeof r); r.join(FREL[t]); } }
static void on_fence(int mo){ if(!hb_on()) return; hb_ensure(); int t=vf_self(); if(t<0) return; if(is_acq(mo)) C[t].join(PEND[t]); if(mo==5){ C[t].join(SCF); SCF.join(C[t]); } if(is_rel(mo)){ FREL[t]=C[t]; C[t].c[t]++; } }
extern "C" void vf_hb_fork(int parent,int child){ if(!hb_on()) return; hb_ensure(); C[child]=C[parent]; C[child].c[child]=1; C[parent].c[parent]++; memset(&PEND[child],0,sizeof(VC)); memset(&FREL[child],0,sizeof(VC)); }
extern "C" void vf_hb_join(int joiner,int child){ if(!hb_on()) return; hb_ensure(); C[joiner].join(C[child]); }
extern "C" void vf_hb_release(const void*a){ if(!hb_on()) return; hb_ensure(); int t=vf_self(); if(t<0) return; VC&r=(*RL)[(const char*)a+1]; r.join(C[t]); C[t].c[t]++; }
extern "C" void vf_hb_acquire(const void*a){ if(!hb_on()) return; hb_ensure(); int t=vf_self(); if(t<0) return; auto it=RL->find((const char*)a+1); if(it!=RL->end()) C[t].join(it->second); }
extern "C" void vf_plain_write(const void*a){ if(!hb_on()) return; hb_ensure(); int t=vf_self(); if(t<0) return; Shadow&s=(*SH)[a];
  if(s.wc && s.wt!=t && !(s.wc<=C[t].c[s.wt])) vf_fail("visibility: write by T%d is not ordered after the write by T%d (no happens-before edge)",t,s.wt);
  for(int i=0;i<NT;i++) if(i!=t && s.reads.c[i]>C[t].c[i]) vf_fail("visibility: write by T%d is not ordered after a read by T%d (no happens-before edge)",t,i);
  s.wt=t; s.wc=C[t].c[t]; memset(&s.reads,0,sizeof s.reads); }
extern "C" void vf_plain_read(const void*a){ if(!hb_on()) return; hb_ensure(); int t=vf_self(); if(t<0) return; Shadow&s=(*SH)[a];
  if(s.wc && s.wt!=t && !(s.wc<=C[t].c[s.wt])) vf_fail("visibility: read by T%d is not ordered after the write by T%d (no happens-before edge)",t,s.wt); s.reads.c[t]=C[t].c[t]; }

// ------------------------------------------------------------------ watched addresses
struct WRange{ const char* lo; const char* hi; };
static WRange wr[16]; static int nwr=0; static vf_watch_ev wlog[4096]; static int nwlog=0;
extern "C" void vf_watch(const void*a,size_t len){ if(nwr<16){ wr[nwr].lo=(const char*)a; wr[nwr].hi=(const char*)a+len; nwr++; } }
extern "C" int vf_watch_log(const vf_watch_ev**out){ *out=wlog; return nwlog; }
static inline void wlogev(const void*a,int kind,uint64_t o,uint64_t n){ if(!nwr) return; for(int i=0;i<nwr;i++) if((const char*)a>=wr[i].lo&&(const char*)a<wr[i].hi){ if(nwlog<4096){ vf_watch_ev&e=wlog[nwlog++]; e.thread=vf_self(); e.kind=kind; e.stamp=vf_steps(); e.oldv=o; e.newv=n; e.addr=a; } return; } }

// ------------------------------------------------------------------ TSO store buffers
struct Ent{ void* a; int n; uint64_t v; int mo; };
struct Buf{ Ent e[64]; int n; };
static Buf bufs[NT];
static void commit(Ent&e){ switch(e.n){ case 1: __atomic_store_n((uint8_t*)e.a,(uint8_t)e.v,__ATOMIC_SEQ_CST); break; case 2: __atomic_store_n((uint16_t*)e.a,(uint16_t)e.v,__ATOMIC_SEQ_CST); break; case 4: __atomic_store_n((uint32_t*)e.a,(uint32_t)e.v,__ATOMIC_SEQ_CST); break; default: __atomic_store_n((uint64_t*)e.a,(uint64_t)e.v,__ATOMIC_SEQ_CST);} }
static void drain(int t){ Buf&b=bufs[t]; for(int i=0;i<b.n;i++){ on_store(b.e[i].a,b.e[i].mo); vf_fp_event(b.e[i].a,1); commit(b.e[i]); } b.n=0; }
extern "C" void vf_tso_reset_thread(int t){ if(t>=0&&t<NT) bufs[t].n=0; }
extern "C" void vf_tso_drain(){ if(!tso_on()) return; int t=vf_self(); if(t>=0 && bufs[t].n>0){ vf_point_local("tso-drain"); drain(t);} }
// at every later access of a thread with a non-empty buffer the explorer may drain early (one deviation)
static inline void tso_maybe_drain(int t){ if(bufs[t].n>0 && vf_choose(2)){ vf_fp_local(0xd7a1); drain(t);} }
static bool fwd(int t,const volatile void*a,int n,uint64_t*out){ Buf&b=bufs[t]; for(int i=b.n-1;i>=0;i--){ if(b.e[i].a==(void*)a && b.e[i].n==n){ *out=b.e[i].v; return true;}
   uintptr_t x=(uintptr_t)b.e[i].a,y=(uintptr_t)a; if(x<y+n && y<x+b.e[i].n){ drain(t); return false; } } return false; }
// plain accesses (only present in TSO builds, which keep -tsan-instrument-memory-accesses on): keep store order
// A forced drain is preceded by a scheduling point: on real hardware the buffered store could stay invisible while other threads
// run up to this moment, so the explorer must be able to run them here (found by the store-buffering self-test, tools/selftest.py).
static inline void plain_access(const void*a,int n,int w){ if(m_tso<=0) return; int t=vf_self(); if(t<0||bufs[t].n==0) return;
  if(w){ vf_point_local("tso-drain"); drain(t); return; } Buf&b=bufs[t]; uintptr_t y=(uintptr_t)a; for(int i=0;i<b.n;i++){ uintptr_t x=(uintptr_t)b.e[i].a; if(x<y+n && y<x+b.e[i].n){ vf_point_local("tso-drain"); drain(t); return; } } }

extern "C" void vf_rt_reset(){ nwr=0; nwlog=0; for(int i=0;i<NT;i++) bufs[i].n=0; if(hb_init){ RL->clear(); SH->clear(); memset(C,0,sizeof C); memset(PEND,0,sizeof PEND); memset(FREL,0,sizeof FREL); memset(&SCF,0,sizeof SCF); for(int i=0;i<NT;i++) C[i].c[i]=1; } }

extern "C" {
void __tsan_init() {}
#define LOADV(T) T v; { uint64_t f; int t; if(tso_on() && (t=vf_self())>=0){ tso_maybe_drain(t); if(fwd(t,a,sizeof(T),&f)) v=(T)f; else v=__atomic_load_n(a,__ATOMIC_SEQ_CST);} else v=__atomic_load_n(a,__ATOMIC_SEQ_CST); }
#define DEF(N,T) \
T __tsan_atomic##N##_load(const volatile T*a,int mo){ vf_point_rw((const void*)a,0,"load"); LOADV(T); on_load((const void*)a,mo); wlogev((const void*)a,0,v,v); return v;} \
void __tsan_atomic##N##_store(volatile T*a,T v,int mo){ vf_point_rw((const void*)a,1,"store"); if(nwr) wlogev((const void*)a,1,(uint64_t)__atomic_load_n(a,__ATOMIC_SEQ_CST),(uint64_t)v); \
   if(tso_on()){ int t=vf_self(); if(t>=0){ if(mo!=5 && bufs[t].n<64 && (bufs[t].n>0 ? !vf_choose(2) : vf_choose(2))){ vf_fp_local(0xb0f); Ent&e=bufs[t].e[bufs[t].n++]; e.a=(void*)a; e.n=sizeof(T); e.v=(uint64_t)v; e.mo=mo; return; } drain(t); } } \
   on_store((const void*)a,mo); __atomic_store_n(a,v,__ATOMIC_SEQ_CST);} \
T __tsan_atomic##N##_exchange(volatile T*a,T v,int mo){ vf_point_rw((const void*)a,1,"xchg"); vf_tso_drain(); on_rmw((const void*)a,mo); T o=__atomic_exchange_n(a,v,__ATOMIC_SEQ_CST); wlogev((const void*)a,2,o,v); return o;} \
T __tsan_atomic##N##_fetch_add(volatile T*a,T v,int mo){ vf_point_rw((const void*)a,1,"fetch_add"); vf_tso_drain(); on_rmw((const void*)a,mo); T o=__atomic_fetch_add(a,v,__ATOMIC_SEQ_CST); wlogev((const void*)a,2,o,(T)(o+v)); return o;} \
T __tsan_atomic##N##_fetch_sub(volatile T*a,T v,int mo){ vf_point_rw((const void*)a,1,"fetch_sub"); vf_tso_drain(); on_rmw((const void*)a,mo); T o=__atomic_fetch_sub(a,v,__ATOMIC_SEQ_CST); wlogev((const void*)a,2,o,(T)(o-v)); return o;} \
T __tsan_atomic##N##_fetch_and(volatile T*a,T v,int mo){ vf_point_rw((const void*)a,1,"fetch_and"); vf_tso_drain(); on_rmw((const void*)a,mo); T o=__atomic_fetch_and(a,v,__ATOMIC_SEQ_CST); wlogev((const void*)a,2,o,(T)(o&v)); return o;} \
T __tsan_atomic##N##_fetch_or(volatile T*a,T v,int mo){ vf_point_rw((const void*)a,1,"fetch_or"); vf_tso_drain(); on_rmw((const void*)a,mo); T o=__atomic_fetch_or(a,v,__ATOMIC_SEQ_CST); wlogev((const void*)a,2,o,(T)(o|v)); return o;} \
T __tsan_atomic##N##_fetch_xor(volatile T*a,T v,int mo){ vf_point_rw((const void*)a,1,"fetch_xor"); vf_tso_drain(); on_rmw((const void*)a,mo); T o=__atomic_fetch_xor(a,v,__ATOMIC_SEQ_CST); wlogev((const void*)a,2,o,(T)(o^v)); return o;} \
T __tsan_atomic##N##_fetch_nand(volatile T*a,T v,int mo){ vf_point_rw((const void*)a,1,"fetch_nand"); vf_tso_drain(); on_rmw((const void*)a,mo); T o=__atomic_fetch_nand(a,v,__ATOMIC_SEQ_CST); wlogev((const void*)a,2,o,(T)~(o&v)); return o;} \
int __tsan_atomic##N##_compare_exchange_strong(volatile T*a,T*c,T v,int mo,int fmo){ vf_point_rw((const void*)a,1,"cas"); vf_tso_drain(); T e=*c; int ok=__atomic_compare_exchange_n(a,c,v,0,__ATOMIC_SEQ_CST,__ATOMIC_SEQ_CST); if(ok){ on_rmw((const void*)a,mo); wlogev((const void*)a,2,e,v);} else on_load((const void*)a,fmo); return ok;} \
int __tsan_atomic##N##_compare_exchange_weak(volatile T*a,T*c,T v,int mo,int fmo){ vf_point_rw((const void*)a,1,"cas"); vf_tso_drain(); T e=*c; int ok=__atomic_compare_exchange_n(a,c,v,0,__ATOMIC_SEQ_CST,__ATOMIC_SEQ_CST); if(ok){ on_rmw((const void*)a,mo); wlogev((const void*)a,2,e,v);} else on_load((const void*)a,fmo); return ok;} \
T __tsan_atomic##N##_compare_exchange_val(volatile T*a,T c,T v,int mo,int fmo){ vf_point_rw((const void*)a,1,"cas"); vf_tso_drain(); T e=c; int ok=__atomic_compare_exchange_n(a,&e,v,0,__ATOMIC_SEQ_CST,__ATOMIC_SEQ_CST); if(ok){ on_rmw((const void*)a,mo); wlogev((const void*)a,2,c,v);} else on_load((const void*)a,fmo); return e;}
DEF(8,uint8_t) DEF(16,uint16_t) DEF(32,uint32_t) DEF(64,uint64_t)
void __tsan_atomic_thread_fence(int mo){ vf_point_local("fence"); if(mo==5) vf_tso_drain(); on_fence(mo); }
void __tsan_atomic_signal_fence(int){}
// plain-access instrumentation (TSO builds only; otherwise never referenced)
void __tsan_read1(void*a){ plain_access(a,1,0);} void __tsan_read2(void*a){ plain_access(a,2,0);} void __tsan_read4(void*a){ plain_access(a,4,0);} void __tsan_read8(void*a){ plain_access(a,8,0);} void __tsan_read16(void*a){ plain_access(a,16,0);}
void __tsan_write1(void*a){ plain_access(a,1,1);} void __tsan_write2(void*a){ plain_access(a,2,1);} void __tsan_write4(void*a){ plain_access(a,4,1);} void __tsan_write8(void*a){ plain_access(a,8,1);} void __tsan_write16(void*a){ plain_access(a,16,1);}
void __tsan_unaligned_read2(void*a){ plain_access(a,2,0);} void __tsan_unaligned_read4(void*a){ plain_access(a,4,0);} void __tsan_unaligned_read8(void*a){ plain_access(a,8,0);} void __tsan_unaligned_read16(void*a){ plain_access(a,16,0);}
void __tsan_unaligned_write2(void*a){ plain_access(a,2,1);} void __tsan_unaligned_write4(void*a){ plain_access(a,4,1);} void __tsan_unaligned_write8(void*a){ plain_access(a,8,1);} void __tsan_unaligned_write16(void*a){ plain_access(a,16,1);}
void __tsan_read_write1(void*a){ plain_access(a,1,1);} void __tsan_read_write2(void*a){ plain_access(a,2,1);} void __tsan_read_write4(void*a){ plain_access(a,4,1);} void __tsan_read_write8(void*a){ plain_access(a,8,1);} void __tsan_read_write16(void*a){ plain_access(a,16,1);}
void __tsan_unaligned_read_write2(void*a){ plain_access(a,2,1);} void __tsan_unaligned_read_write4(void*a){ plain_access(a,4,1);} void __tsan_unaligned_read_write8(void*a){ plain_access(a,8,1);}
void __tsan_vptr_update(void**a,void*){ plain_access(a,8,1);} void __tsan_vptr_read(void**a){ plain_access(a,8,0);}
void __tsan_read_range(void*a,unsigned long n){ plain_access(a,(int)(n>1u<<20?1u<<20:n),0);} void __tsan_write_range(void*a,unsigned long n){ plain_access(a,(int)(n>1u<<20?1u<<20:n),1);}
void __tsan_func_entry(void*){} void __tsan_func_exit(){}
}
