// vsched.cpp - cooperative token-passing scheduler over real threads + forking, deviation-bounded,
// cost-ordered explorer with happens-before-fingerprint pruning.  DESIGN.md section 4.
// Compiled WITHOUT the atomic instrumentation flags.
#ifndef _GNU_SOURCE
#define _GNU_SOURCE 1
#endif
#include "vf_internal.h"
#include <pthread.h>
#include <sched.h>
#include <unistd.h>
#include <fcntl.h>
#include <sys/syscall.h>
#include <sys/mman.h>
#include <sys/wait.h>
#include <sys/select.h>
#include <sys/prctl.h>
#include <sys/personality.h>
#include <sys/resource.h>
#include <linux/futex.h>
#include <signal.h>
#include <dlfcn.h>
#include <stdarg.h>
#include <stdio.h>
#include <stdlib.h>
#include <string.h>
#include <time.h>
#include <errno.h>
#include <vector>
#include <string>
#include <map>
#include <set>
#include <deque>
#include <algorithm>
#include <execinfo.h>

#define MAXT 16
#define MAXP 6144
enum { ST_FREE=0, ST_RUN, ST_BLOCK, ST_JOIN, ST_GATE, ST_DONE };
enum { R_OKAY=0, R_VIOLATION=1, R_DEADLOCK=2, R_HORIZON=3, R_LIVELOCK=4, R_PRUNED=5, R_HANG=6, R_DIVERGE=8, R_CRASH=9, R_TIMEOUT=10 };
static const char* status_name(int s){ switch(s){ case 0:return "ok"; case 1:return "violation"; case 2:return "deadlock"; case 3:return "horizon"; case 4:return "livelock"; case 5:return "pruned"; case 6:return "hang"; case 8:return "divergence"; case 9:return "crash"; case 10:return "timeout"; } return "?"; }

struct T { int st; int go; const void* waddr; int join_target; pthread_t pt; int nyield; int nblocks; };
static T th[MAXT]; static int nth=0; static __thread int me=-1;
static int active=0, window=0, liveness=0, inproc=0; static double g_overload=1.0;
static unsigned long steps=0; static long vclock=0; static unsigned long stampctr=0;
static unsigned long horizon=200000;

struct Result { // lives in shared memory, one per job slot
  int status; int npoints; int conflict; int nthreads; int sig; int cost;
  unsigned char nen[MAXP]; unsigned char costfree[MAXP];
  unsigned long steps; uint64_t evhash; uint64_t nenhash_at; // hash of nen[0..nprefix)
  char msg[512]; char outcome[2048];
};
static Result* R; static unsigned char* prefix; static int nprefix=0; static int ipoint=0;
static int verbose=0;

// ---------------------------------------------------------------- fingerprints
static int use_fp=0; static int mycost=0;
static uint64_t hthr[MAXT]; static uint64_t evhash=0;
struct AEnt{ const void* a; uint64_t w, r; int lastw; int lastr; };
#define ATAB 16384
static AEnt atab[ATAB];
static inline uint64_t mix(uint64_t x,uint64_t y){ x^=y+0x9e3779b97f4a7c15ULL+(x<<6)+(x>>2); x*=0xff51afd7ed558ccdULL; x^=x>>33; return x; }
static AEnt* aent(const void*a){ size_t i=((uintptr_t)a>>2)%ATAB; for(int n=0;n<ATAB;n++){ if(atab[i].a==a) return &atab[i]; if(!atab[i].a){ atab[i].a=a; atab[i].w=0; atab[i].r=0; atab[i].lastw=-1; atab[i].lastr=-1; return &atab[i]; } i=(i+1)%ATAB; } return &atab[0]; }
struct VEnt{ uint64_t key; int cost; };
static size_t VTAB=(size_t)1<<25;
static VEnt* vtab; static long* vcount; // shared
static void fp_event(const void*a,int w){ if(me<0) return; AEnt*e=aent(a);
  // conflict detection (for the "non-trivial" evidence counter): two threads, one address, >=1 write
  if(window){ if(w){ if((e->lastw>=0&&e->lastw!=me)||(e->lastr>=0&&e->lastr!=me)) R->conflict=1; } else if(e->lastw>=0&&e->lastw!=me) R->conflict=1; }
  if(w){ e->lastw=me; e->lastr=-1; } else if(e->lastr<0) e->lastr=me; else if(e->lastr!=me) e->lastr=MAXT;
  uint64_t h=mix(mix(hthr[me],(uint64_t)(uintptr_t)a*2+w),e->w); if(w){ h=mix(h,e->r); e->w=h; e->r=0; } else e->r^=h; hthr[me]=h; }
static int fp_seen(){ uint64_t k=mix(0x1234,me); for(int t=0;t<nth;t++) k=mix(k,mix(hthr[t],th[t].st*31+(th[t].st==ST_JOIN?th[t].join_target:0))); if(k==0)k=1;
  size_t i=k&(VTAB-1);
  for(int probe=0;probe<128;probe++,i=(i+1)&(VTAB-1)){
    uint64_t cur=__atomic_load_n(&vtab[i].key,__ATOMIC_ACQUIRE);
    if(cur==0){ uint64_t z=0; if(__atomic_compare_exchange_n(&vtab[i].key,&z,k,0,__ATOMIC_ACQ_REL,__ATOMIC_ACQUIRE)){ __atomic_store_n(&vtab[i].cost,mycost,__ATOMIC_RELEASE); __atomic_fetch_add(vcount,1,__ATOMIC_RELAXED); return 0; } cur=z; }
    if(cur==k){ int c=__atomic_load_n(&vtab[i].cost,__ATOMIC_ACQUIRE); if(c<=mycost) return 1; __atomic_store_n(&vtab[i].cost,mycost,__ATOMIC_RELEASE); return 0; }
  }
  return 0; }

// ---------------------------------------------------------------- token passing
static long rawfutex(int*a,int op,int v){ long ret; register long r10 __asm__("r10")=0; __asm__ volatile("syscall":"=a"(ret):"a"((long)SYS_futex),"D"(a),"S"((long)op),"d"((long)v),"r"(r10):"rcx","r11","memory"); return ret;}
static void wait_go(int t){ while(__atomic_load_n(&th[t].go,__ATOMIC_ACQUIRE)==0) rawfutex(&th[t].go,FUTEX_WAIT_PRIVATE,0); __atomic_store_n(&th[t].go,0,__ATOMIC_RELAXED);}
static void give(int t){ __atomic_store_n(&th[t].go,1,__ATOMIC_RELEASE); rawfutex(&th[t].go,FUTEX_WAKE_PRIVATE,1);}

struct TraceEv{ unsigned char t, kind; const char* op; const void* a; };
#define RING 256
static TraceEv ring[RING]; static unsigned ringpos=0;
static void dump_ring(){ fprintf(stderr,"--- last %d scheduling steps (thread op addr) ---\n",RING); for(unsigned i=0;i<RING;i++){ TraceEv&e=ring[(ringpos+i)%RING]; if(e.op) fprintf(stderr,"T%d %s%s %p\n",e.t,e.op,e.kind==1?" [yield]":e.kind==2?" [block]":"",e.a);} fprintf(stderr,"--- states:"); for(int t=0;t<nth;t++) fprintf(stderr," T%d=%d(%p)",t,th[t].st,th[t].waddr); fprintf(stderr,"\n"); }

static void crash_handler(int sig){ fprintf(stderr,"*** signal %d in T%d at step %lu\n",sig,me,steps); void* bt[48]; int n=backtrace(bt,48); backtrace_symbols_fd(bt,n,2); dump_ring(); signal(sig,SIG_DFL); raise(sig); }
static void finish(int status,const char*msg) __attribute__((noreturn));
extern "C" void vf_ip_fail(const char*b) __attribute__((noreturn));
static const char*(*stuck_fn)(void)=0;
extern "C" void vf_on_stuck(const char*(*f)(void)){ stuck_fn=f; }
static void finish(int status,const char*msg){
  if(inproc){ vf_ip_fail(msg?msg:status_name(status)); }
  if(status==R_HORIZON && liveness) { status=R_HANG; }
  // a harness may label a stuck execution (deadlock / hang / livelock) that its reference model of a recorded known finding explains
  if(stuck_fn && msg && (status==R_DEADLOCK||status==R_HANG||status==R_LIVELOCK)){ int sa=active; active=0; const char*l=stuck_fn(); active=sa; if(l){ static char b2[480]; snprintf(b2,sizeof b2,"%.200s [%.250s]",msg,l); msg=b2; } }
  if(verbose && status!=R_OKAY && status!=R_PRUNED) dump_ring();
  { uint64_t h=0; for(int i=0;i<nprefix&&i<ipoint;i++) h=mix(h,R->nen[i]); R->nenhash_at=h; }
  R->status=status; R->npoints=ipoint; R->steps=steps; R->evhash=evhash; R->nthreads=nth; R->cost=mycost;
  if(msg){ strncpy(R->msg,msg,sizeof(R->msg)-1); R->msg[sizeof(R->msg)-1]=0; } else R->msg[0]=0;
  _exit(0); }

static int take_choice(int n,int freealt){
  int pick=0;
  if(n>1 && window){ if(ipoint>=MAXP) finish(R_HORIZON,"too many choice points");
    if(use_fp && ipoint>=nprefix && fp_seen()) finish(R_PRUNED,0);
    R->nen[ipoint]=(unsigned char)n; R->costfree[ipoint]=(unsigned char)freealt;
    if(ipoint<nprefix) pick=prefix[ipoint];
    if(pick>=n) finish(R_DIVERGE,"replay divergence: choice out of range");
    if(pick>0 && !freealt) mycost++;
    ipoint++; }
  return pick; }

// implicit spin detection (F15): a thread that keeps the token for many consecutive points while others are enabled
static int consec=0, lastme=-1;
// kind: 0 ordinary (me stays enabled), 1 yield, 2 blocked/done
static void schedule(int kind,const char*op,const void*a){
  TraceEv&te=ring[ringpos++%RING]; te.t=(unsigned char)me; te.kind=(unsigned char)kind; te.op=op; te.a=a;
  evhash=mix(evhash,mix((uint64_t)(uintptr_t)a,me*4+kind));
  if(++steps>horizon) finish(R_HORIZON,"step horizon reached");
  if(lastme==me) consec++; else { consec=0; lastme=me; }
  if(kind==0 && consec>150){ kind=1; consec=0; }
  int en[MAXT], n=0;
  if(kind==0) en[n++]=me;
  for(int k=1;k<nth;k++){ int t=(me+k)%nth; if(th[t].st==ST_RUN) en[n++]=t; }
  if(kind==1) en[n++]=me;
  if(n==0){ char b[256]; int l=snprintf(b,sizeof b,"deadlock: no enabled thread;"); for(int t=0;t<nth&&l<240;t++) l+=snprintf(b+l,sizeof(b)-l," T%d=%s",t,th[t].st==ST_BLOCK?"blocked":th[t].st==ST_JOIN?"join":th[t].st==ST_GATE?"gate":th[t].st==ST_DONE?"done":"?"); finish(R_DEADLOCK,b); }
  if(kind==1){ if(n==1){ if(++th[me].nyield>400) finish(liveness?R_LIVELOCK:R_HORIZON,"livelock: a lone thread spins forever"); } else th[me].nyield=0; } else th[me].nyield=0;
  int pick=take_choice(n, kind==2);
  int t=en[pick];
  if(t==me) return;
  give(t);
  if(kind==2 && th[me].st==ST_DONE) return;
  wait_go(me);
}
extern "C" int vf_is_active(){ return active&&me>=0&&!inproc; }
extern "C" int vf_self(){ return (active&&me>=0)?me:-1; }
extern "C" int vf_nthreads(){ return nth; }
extern "C" void vf_ip_fail(const char*b);
static unsigned long ip_horizon=30000000ul;
extern "C" void vf_point_rw(const void*a,int w,const char*op){ if(inproc){ if(active && ++steps>ip_horizon){ steps=0; vf_ip_fail("hang: the execution performed more than 30000000 atomic operations without finishing (a thread spins on a condition that never becomes true)"); } return; } if(!active||me<0) return; schedule(0,op,a); fp_event(a,w); }
extern "C" void vf_point_local(const char*op){ if(!active||me<0||inproc) return; schedule(0,op,0); hthr[me]=mix(hthr[me],0x77); }
extern "C" void vf_fp_local(uint64_t x){ if(!active||me<0) return; hthr[me]=mix(hthr[me],x^0x5151); }
extern "C" void vf_fp_event(const void*a,int w){ if(!active||me<0) return; fp_event(a,w); }
extern "C" void vf_point(){ vf_point_local("point"); }
extern "C" void vf_yield(){ if(!active||me<0||inproc) return; vf_tso_drain(); schedule(1,"yield",0); fp_event((void*)1,0); }
extern "C" unsigned long vf_steps(){ return steps; }
static int stamp_addr;
extern "C" unsigned long vf_stamp(){ if(active&&me>=0) fp_event(&stamp_addr,1); return ++stampctr; }
extern "C" void vf_liveness(int on){ liveness=on; }
extern "C" int vf_nblocks(){ return (active&&me>=0)?th[me].nblocks:0; }
static void block_on(const void*a,const char*op){ th[me].nblocks++; th[me].st=ST_BLOCK; th[me].waddr=a; schedule(2,op,a); }
static int wake_addr(const void*a,int max){ int n=0; for(int t=0;t<nth&&n<max;t++) if(th[t].st==ST_BLOCK&&th[t].waddr==a){ th[t].st=ST_RUN; n++; } return n; }
extern "C" void vf_block_on(void*a){ if(!active||me<0) return; vf_tso_drain(); fp_event(a,0); block_on(a,"block"); vf_hb_acquire(a); }
extern "C" void vf_wake(void*a){ if(!active||me<0) return; vf_tso_drain(); vf_hb_release(a); fp_event(a,1); wake_addr(a,MAXT); }
extern "C" void vf_gate_wait(){ if(!active||me<0) return; vf_tso_drain(); th[me].st=ST_GATE; schedule(2,"gate",0); vf_hb_acquire(&stamp_addr); }
extern "C" int vf_others_idle(){ for(int t=0;t<nth;t++) if(t!=me && th[t].st==ST_RUN) return 0; return 1; }
extern "C" int vf_gate_count(){ int n=0; for(int t=0;t<nth;t++) if(th[t].st==ST_GATE) n++; return n; }
extern "C" void vf_gate_open(){ vf_hb_release(&stamp_addr); for(int t=0;t<nth;t++) if(th[t].st==ST_GATE) th[t].st=ST_RUN; }
extern "C" void vf_window(int on){ window=on; }
extern "C" int vf_choose(int n){ if(!active||n<=1) return 0; int c=take_choice(n,0); if(me>=0) hthr[me]=mix(hthr[me],0x9000+c); return c; }
extern "C" void vf_fail(const char*fmt,...){ char b[512]; va_list ap; va_start(ap,fmt); vsnprintf(b,sizeof b,fmt,ap); va_end(ap); if(!active){ fprintf(stderr,"vf_fail outside exploration: %s\n",b); _exit(4);} finish(R_VIOLATION,b); }
extern "C" void vf_outcome(const char*fmt,...){ if(!R) return; size_t l=strlen(R->outcome); if(l>=sizeof(R->outcome)-2) return; va_list ap; va_start(ap,fmt); vsnprintf(R->outcome+l,sizeof(R->outcome)-l,fmt,ap); va_end(ap); }
extern "C" void vf_finish(){ if(active) finish(R_OKAY,0); }
extern "C" void vf_log(const char*fmt,...){ if(!verbose) return; va_list ap; va_start(ap,fmt); fprintf(stderr,"[T%d s%lu] ",me,steps); vfprintf(stderr,fmt,ap); va_end(ap); fputc('\n',stderr); }
extern "C" void vf_hook_pause(){ vf_yield(); }
static int backoff_override=2;
extern "C" int vf_hook_backoff(int dflt){ return (active&&backoff_override>0)?backoff_override:dflt; }

// ---------------------------------------------------------------- parameters
static std::map<std::string,std::string>* params;
extern "C" const char* vf_param(const char*k,const char*d){ if(!params) return d; auto it=params->find(k); return it==params->end()?d:it->second.c_str(); }
extern "C" long vf_param_int(const char*k,long d){ const char*s=vf_param(k,0); return s?strtol(s,0,0):d; }

// ---------------------------------------------------------------- thread interposition
struct Start{ void*(*fn)(void*); void*arg; int id; vf_fn vfn; };
static void* tramp(void*p){ Start s=*(Start*)p; me=s.id; wait_go(me); free(p); /* no allocator activity before this thread holds the token */ void*r=0; if(s.vfn) s.vfn(s.arg); else r=s.fn(s.arg);
  vf_tso_drain(); th[me].st=ST_DONE; for(int t=0;t<nth;t++) if(th[t].st==ST_JOIN&&th[t].join_target==me) th[t].st=ST_RUN; schedule(2,"exit",0); for(;;) pause(); return r; }
typedef int(*create_fn)(pthread_t*,const pthread_attr_t*,void*(*)(void*),void*);
static create_fn real_create=0;
static int new_thread(pthread_t*pt,const pthread_attr_t*a,void*(*fn)(void*),vf_fn vfn,void*arg){ vf_tso_drain();
  if(nth>=MAXT){ finish(R_CRASH,"engine: too many threads"); }
  Start*s=(Start*)malloc(sizeof(Start)); s->fn=fn; s->vfn=vfn; s->arg=arg; s->id=nth; th[nth].st=ST_RUN; th[nth].go=0; th[nth].nyield=0; th[nth].nblocks=0; hthr[nth]=mix(0xabc,nth); vf_tso_reset_thread(nth); if(me>=0) vf_hb_fork(me,nth); nth++;
  pthread_t tmp; pthread_attr_t at; pthread_attr_init(&at); size_t ss=0; if(a) pthread_attr_getstacksize(a,&ss); if(ss<(1u<<20)) ss=1u<<20; pthread_attr_setstacksize(&at,ss);
  int r=real_create(pt?pt:&tmp,&at,tramp,s); pthread_attr_destroy(&at); int id=s->id; th[id].pt=pt?*pt:tmp; if(r){ finish(R_CRASH,"engine: pthread_create failed"); }
  vf_point_local("create"); return id; }
extern "C" int pthread_create(pthread_t*pt,const pthread_attr_t*a,void*(*fn)(void*),void*arg){
  if(!real_create) real_create=(create_fn)dlsym(RTLD_NEXT,"pthread_create");
  if(!active||me<0) return real_create(pt,a,fn,arg);
  new_thread(pt,a,fn,0,arg); return 0; }
extern "C" int vf_thread(vf_fn fn,void*arg){ if(!real_create) real_create=(create_fn)dlsym(RTLD_NEXT,"pthread_create"); return new_thread(0,0,0,fn,arg); }
extern "C" void vf_join(int id){ vf_tso_drain(); vf_point_local("join"); if(th[id].st!=ST_DONE){ th[me].st=ST_JOIN; th[me].join_target=id; schedule(2,"join-wait",0);} vf_hb_join(me,id); hthr[me]=mix(hthr[me],hthr[id]); }
extern "C" int pthread_join(pthread_t pt,void**ret){
  static int(*real)(pthread_t,void**)=0; if(!real) real=(int(*)(pthread_t,void**))dlsym(RTLD_NEXT,"pthread_join");
  if(active&&me>=0){ int tgt=-1; for(int t=0;t<nth;t++) if(t!=me && th[t].st!=ST_FREE && pthread_equal(th[t].pt,pt)) tgt=t; if(tgt>=0){ vf_join(tgt); if(ret)*ret=0; return 0; } }
  return real(pt,ret); }
extern "C" int pthread_detach(pthread_t pt){ static int(*real)(pthread_t)=0; if(!real) real=(int(*)(pthread_t))dlsym(RTLD_NEXT,"pthread_detach"); if(active&&me>=0) return 0; return real(pt); }
// The code under test sees a fixed machine: 16 CPUs, whatever the real CPU count or the affinity mask of this process is (every
// execution is pinned to one CPU, see the zygotes in vf_main).  oneTBB derives its default concurrency from these two calls.
#define VF_NCPU 16
extern "C" int sched_getaffinity(pid_t pid,size_t sz,cpu_set_t*m){ if(active){ memset(m,0,sz); for(size_t i=0;i<VF_NCPU&&i<sz*8;i++) CPU_SET_S(i,sz,m); return 0; }
  long r; __asm__ volatile("syscall":"=a"(r):"a"((long)SYS_sched_getaffinity),"D"((long)pid),"S"((long)sz),"d"(m):"rcx","r11","memory"); if(r<0){ errno=(int)-r; return -1; } if((size_t)r<sz) memset((char*)m+r,0,sz-r); return 0; }
extern "C" long sysconf(int name){ static long(*real)(int)=0; if(!real) real=(long(*)(int))dlsym(RTLD_NEXT,"sysconf"); if(active&&(name==_SC_NPROCESSORS_ONLN||name==_SC_NPROCESSORS_CONF)) return VF_NCPU; return real(name); }
extern "C" int sched_yield(){ if(active&&me>=0){ vf_yield(); return 0; } return 0; }
extern "C" int nanosleep(const struct timespec*rq,struct timespec*rm){ (void)rq;(void)rm; if(active&&me>=0){ vf_yield(); return 0; } return 0; }
extern "C" int usleep(useconds_t us){ (void)us; if(active&&me>=0){ vf_yield(); } return 0; }

typedef int(*mtx_fn)(pthread_mutex_t*);
static mtx_fn real_mlock=0, real_mtry=0, real_munlock=0;
static void mtx_init(){ if(!real_mlock){ real_mtry=(mtx_fn)dlsym(RTLD_NEXT,"pthread_mutex_trylock"); real_munlock=(mtx_fn)dlsym(RTLD_NEXT,"pthread_mutex_unlock"); real_mlock=(mtx_fn)dlsym(RTLD_NEXT,"pthread_mutex_lock"); } }
extern "C" int pthread_mutex_lock(pthread_mutex_t*m){ mtx_init(); if(!active||me<0) return real_mlock(m);
  vf_tso_drain(); vf_point_rw(m,1,"mutex_lock"); int r; while((r=real_mtry(m))==EBUSY){ block_on(m,"mutex-wait"); } vf_hb_acquire(m); return r; }
extern "C" int pthread_mutex_trylock(pthread_mutex_t*m){ mtx_init(); if(!active||me<0) return real_mtry(m);
  vf_tso_drain(); vf_point_rw(m,1,"mutex_trylock"); int r=real_mtry(m); if(r==0) vf_hb_acquire(m); return r; }
extern "C" int pthread_mutex_unlock(pthread_mutex_t*m){ mtx_init(); if(!active||me<0) return real_munlock(m);
  vf_tso_drain(); vf_point_rw(m,1,"mutex_unlock"); vf_hb_release(m); int r=real_munlock(m); wake_addr(m,MAXT); return r; }
extern "C" int pthread_once(pthread_once_t*o,void(*fn)(void)){ // states: 0 new, 1 running, 2 done
  int*s=(int*)o; if(*s==2) return 0;
  if(active&&me>=0){ vf_tso_drain(); vf_point_rw(o,1,"once"); while(*s==1) block_on(o,"once-wait"); if(*s==2){ vf_hb_acquire(o); return 0; } *s=1; fn(); vf_hb_release(o); *s=2; wake_addr(o,MAXT); return 0; }
  if(*s==0){ *s=1; fn(); *s=2; } return 0; }
// function-local statics: a thread preempted inside an initialiser must not park the token holder in libstdc++'s futex
extern "C" int __cxa_guard_acquire(uint64_t*g){ volatile unsigned char*b=(volatile unsigned char*)g; if(b[0]) return 0;
  if(active&&me>=0){ while(b[1]){ block_on(g,"guard-wait"); } if(b[0]){ vf_hb_acquire(g); return 0; } b[1]=1; return 1; }
  if(b[1]) return 0; b[1]=1; return 1; }
extern "C" void __cxa_guard_release(uint64_t*g){ volatile unsigned char*b=(volatile unsigned char*)g; if(active&&me>=0) vf_hb_release(g); __atomic_store_n((unsigned char*)g,1,__ATOMIC_RELEASE); b[1]=0; if(active&&me>=0) wake_addr(g,MAXT); }
extern "C" void __cxa_guard_abort(uint64_t*g){ volatile unsigned char*b=(volatile unsigned char*)g; b[1]=0; if(active&&me>=0) wake_addr(g,MAXT); }

static int spurious=0; // allow spurious futex wake-ups as deviations
extern "C" long syscall(long no,...){
  va_list ap; va_start(ap,no); long a1=va_arg(ap,long),a2=va_arg(ap,long),a3=va_arg(ap,long),a4=va_arg(ap,long),a5=va_arg(ap,long),a6=va_arg(ap,long); va_end(ap);
  if(no==SYS_futex && active && me>=0){ vf_tso_drain(); int*addr=(int*)a1; int op=a2&~(FUTEX_PRIVATE_FLAG|FUTEX_CLOCK_REALTIME);
    if(op==FUTEX_WAIT||op==FUTEX_WAIT_BITSET){ vf_point_rw(addr,0,"futex_wait"); if(__atomic_load_n(addr,__ATOMIC_SEQ_CST)!=(int)a3){ errno=EAGAIN; return -1;}
      if(spurious && vf_choose(2)){ return 0; }
      block_on(addr,"futex-sleep"); vf_hb_acquire(addr); return 0; }
    if(op==FUTEX_WAKE||op==FUTEX_WAKE_BITSET){ vf_point_rw(addr,1,"futex_wake"); vf_hb_release(addr); int want=(int)a3; int cand[MAXT],nc=0; for(int t=0;t<nth;t++) if(th[t].st==ST_BLOCK&&th[t].waddr==addr) cand[nc++]=t;
      int n=0; if(nc<=want){ for(int i=0;i<nc;i++){ th[cand[i]].st=ST_RUN; n++; } } else { // which waiter is woken is a choice
        for(int k=0;k<want;k++){ int c=vf_choose(nc); th[cand[c]].st=ST_RUN; cand[c]=cand[--nc]; n++; } }
      return n; }
  }
  register long r10 __asm__("r10")=a4; register long r8 __asm__("r8")=a5; register long r9 __asm__("r9")=a6; long ret;
  __asm__ volatile("syscall":"=a"(ret):"a"(no),"D"(a1),"S"(a2),"d"(a3),"r"(r10),"r"(r8),"r"(r9):"rcx","r11","memory");
  if(ret<0 && ret>-4096){ errno=(int)-ret; return -1;} return ret; }
static long raw_clock(clockid_t c,struct timespec*ts){ long r; __asm__ volatile("syscall":"=a"(r):"a"((long)SYS_clock_gettime),"D"((long)c),"S"(ts):"rcx","r11","memory"); return r; }
extern "C" int clock_gettime(clockid_t c, struct timespec*ts){ if(active){ vclock+=200000; ts->tv_sec=1000+vclock/1000000000; ts->tv_nsec=vclock%1000000000; return 0;} return (int)raw_clock(c,ts); }
extern "C" time_t time(time_t*t){ if(active){ if(t)*t=1700000000; return 1700000000; } struct timespec ts; raw_clock(CLOCK_REALTIME,&ts); if(t)*t=ts.tv_sec; return ts.tv_sec; }
static double now_s(){ struct timespec ts; raw_clock(CLOCK_MONOTONIC,&ts); return ts.tv_sec+ts.tv_nsec*1e-9; }

// ================================================================== explorer (parent side)
struct Node { std::vector<std::pair<unsigned short,unsigned char>> devs; int len; int cost; uint64_t nenhash; int flags; }; // flags: 1 confirm, 2 long horizon
static void materialise(const Node&n,unsigned char*out){ memset(out,0,n.len); for(auto&d:n.devs) out[d.first]=d.second; }
static std::string prefix_str(const Node&n){ std::string s; for(auto&d:n.devs){ if(!s.empty()) s+=","; s+=std::to_string(d.first)+":"+std::to_string(d.second);} return s; }
static std::string jesc(const std::string&s){ std::string o; for(char c:s){ if(c=='"'||c=='\\'){ o+='\\'; o+=c; } else if((unsigned char)c<32){ char b[8]; snprintf(b,8,"\\u%04x",c); o+=b; } else o+=c; } return o; }

struct Slot{ Result r; unsigned char prefix[MAXP]; int nprefix; int flags; };

struct Opts { int bound=2; int jobs=16; std::string replay; long maxexec=-1; double deadline=1e9; std::string json; std::string replaydir="/verif/out/replays"; std::string tag="run";
  std::vector<std::string> known; int keepgoing=0; int exec_timeout=20; int nofp_check=0; std::vector<std::string> argv_keep; };
static Opts O;
static void parse_args(int argc,char**argv){ params=new std::map<std::string,std::string>();
  for(int i=1;i<argc;i++){ std::string a=argv[i]; auto next=[&](){ return std::string(i+1<argc?argv[++i]:""); };
    if(a=="-b") O.bound=atoi(next().c_str()); else if(a=="-j") O.jobs=atoi(next().c_str()); else if(a=="-r") O.replay=next(); else if(a=="-n") O.maxexec=atol(next().c_str());
    else if(a=="-v") verbose=1; else if(a=="-fp") use_fp=1; else if(a=="-deadline") O.deadline=atof(next().c_str()); else if(a=="-json") O.json=next(); else if(a=="-replaydir") O.replaydir=next();
    else if(a=="-tag") O.tag=next(); else if(a=="-known") O.known.push_back(next()); else if(a=="-keepgoing") O.keepgoing=1; else if(a=="-horizon") horizon=strtoul(next().c_str(),0,0);
    else if(a=="-spurious") spurious=1; else if(a=="-backoff") backoff_override=atoi(next().c_str()); else if(a=="-exec-timeout") O.exec_timeout=atoi(next().c_str());
    else if(a=="-vtab") VTAB=(size_t)1<<atoi(next().c_str());
    else if(a=="-hb"||a=="-tso"){ (*params)[a.substr(1)]="1"; }
    else if(a=="-p"){ std::string kv=next(); size_t e=kv.find('='); if(e==std::string::npos) (*params)[kv]="1"; else (*params)[kv.substr(0,e)]=kv.substr(e+1); }
    else { fprintf(stderr,"unknown option %s\n",a.c_str()); exit(2); } }
  if(O.jobs<1) O.jobs=1; if(O.jobs>64) O.jobs=64;
  // wall-clock limits per execution are meant for a machine that has a core for every job: on an overloaded machine (load average
  // above the number of cores) they are stretched by that ratio (at most 30x), so that a slow execution is not taken for a hang
  { double l1=0; FILE* f=fopen("/proc/loadavg","r"); if(f){ if(fscanf(f,"%lf",&l1)!=1) l1=0; fclose(f);} long nc=sysconf(_SC_NPROCESSORS_ONLN); if(nc<1) nc=1;
    double k=l1/(double)nc; if(k>1.0){ if(k>30.0) k=30.0; O.exec_timeout=(int)(O.exec_timeout*k)+1; g_overload=k; } } }
// -1 = command line not parsed yet (static initialisers of the code under test run atomics before main): callers must not cache that
extern "C" int vf_mode_hb(){ return params ? (int)params->count("hb") : -1; }
extern "C" int vf_mode_tso(){ return params ? (int)params->count("tso") : -1; }

static bool is_bad(int st){ return st==R_VIOLATION||st==R_DEADLOCK||st==R_LIVELOCK||st==R_HANG||st==R_CRASH||st==R_TIMEOUT; }

extern "C" int vf_main(int argc,char**argv,void(*scenario)(void)){
  parse_args(argc,argv);
  if(!(personality(0xffffffff)&ADDR_NO_RANDOMIZE)){ personality(ADDR_NO_RANDOMIZE); execv("/proc/self/exe",argv); perror("execv"); return 2; }
  setvbuf(stdout,0,_IOLBF,0);
  int jobs=O.jobs; bool replaying=!O.replay.empty(); if(replaying) jobs=1;
  vtab=(VEnt*)mmap(0,sizeof(VEnt)*VTAB,PROT_READ|PROT_WRITE,MAP_SHARED|MAP_ANONYMOUS|MAP_NORESERVE,-1,0);
  vcount=(long*)mmap(0,4096,PROT_READ|PROT_WRITE,MAP_SHARED|MAP_ANONYMOUS,-1,0);
  Slot* slots=(Slot*)mmap(0,sizeof(Slot)*jobs,PROT_READ|PROT_WRITE,MAP_SHARED|MAP_ANONYMOUS,-1,0);
  if(vtab==MAP_FAILED||slots==MAP_FAILED){ perror("mmap"); return 2; }
  struct Z { int cmd[2]; int res[2]; pid_t pid; };
  std::vector<Z> zs(jobs);
  for(int j=0;j<jobs;j++){ if(pipe(zs[j].cmd)||pipe(zs[j].res)){ perror("pipe"); return 2; } }
  fflush(stdout); fflush(stderr);
  for(int j=0;j<jobs;j++){ pid_t z=fork(); if(z==0){ prctl(PR_SET_PDEATHSIG,SIGKILL);
      if(!getenv("VF_NOPIN")){ long nc=sysconf(_SC_NPROCESSORS_ONLN); if(nc>0){ cpu_set_t cs; CPU_ZERO(&cs); CPU_SET(j%nc,&cs); sched_setaffinity(0,sizeof cs,&cs); } }   // all threads of an execution share one CPU: token hand-offs never wait for another (possibly descheduled) virtual CPU
      for(int k=0;k<jobs;k++){ close(zs[k].cmd[1]); close(zs[k].res[0]); if(k!=j){ close(zs[k].cmd[0]); close(zs[k].res[1]); } }
      if(!verbose){ int dn=open("/dev/null",O_WRONLY); if(dn>=0){ dup2(dn,1); dup2(dn,2); close(dn);} }
      char c; while(read(zs[j].cmd[0],&c,1)==1){ pid_t pid=fork();
        if(pid==0){ prctl(PR_SET_PDEATHSIG,SIGKILL); struct rlimit rl={0,0}; setrlimit(RLIMIT_CORE,&rl); alarm(slots[j].flags&2?O.exec_timeout*10:O.exec_timeout);
          mycost=0; R=&slots[j].r; prefix=slots[j].prefix; nprefix=slots[j].nprefix; if(slots[j].flags&2) horizon*=10; if(slots[j].flags&7) use_fp=0; me=0; nth=1; th[0].st=ST_RUN; hthr[0]=mix(0xabc,0); if(verbose){ signal(SIGSEGV,crash_handler); signal(SIGABRT,crash_handler); signal(SIGBUS,crash_handler); } active=1; scenario(); finish(R_OKAY,0); }
        int st=0; waitpid(pid,&st,0); if(WIFSIGNALED(st)){ slots[j].r.sig=WTERMSIG(st); if(WTERMSIG(st)==SIGALRM){ slots[j].r.status=R_TIMEOUT; snprintf(slots[j].r.msg,sizeof slots[j].r.msg,"execution exceeded %d s wall time (token holder parked in the kernel, or runaway loop)",O.exec_timeout);} else { slots[j].r.status=R_CRASH; snprintf(slots[j].r.msg,sizeof slots[j].r.msg,"crash: signal %d (%s)",WTERMSIG(st),strsignal(WTERMSIG(st))); } }
        else if(WIFEXITED(st)&&WEXITSTATUS(st)!=0){ slots[j].r.status=R_CRASH; snprintf(slots[j].r.msg,sizeof slots[j].r.msg,"crash: process exited with status %d",WEXITSTATUS(st)); }
        if(write(zs[j].res[1],&c,1)!=1) _exit(0); }
      _exit(0);} zs[j].pid=z; }
  for(int j=0;j<jobs;j++){ close(zs[j].cmd[0]); close(zs[j].res[1]); }

  // work buckets by cost
  int maxb = replaying? 0 : O.bound;
  std::vector<std::vector<Node>> bucket(maxb+2);
  Node root; root.len=0; root.cost=0; root.nenhash=0; root.flags=0;
  if(replaying){ // format "pos:alt,pos:alt,..." optionally preceded by "len=N;"
    const char*s=O.replay.c_str(); int mx=0; while(*s){ int p=strtol(s,(char**)&s,10); if(*s==':'){ s++; int a=strtol(s,(char**)&s,10); root.devs.push_back({(unsigned short)p,(unsigned char)a}); if(p+1>mx) mx=p+1; } while(*s==','||*s==' ') s++; if(*s && !(*s>='0'&&*s<='9')) break; }
    root.len=mx; }
  if(replaying) bucket[0].push_back(root);
  long nexec=0,nviol=0,nknown=0,nhor=0,npruned=0,ntimeouts=0,nconfl=0,expanded=0; unsigned long totsteps=0,totpoints=0; int completed_bound=-1; bool hitdeadline=false, engine_error=false; std::string engine_msg;
  std::map<std::string,long> outcomes; std::map<std::string,long> outcomes_conf; std::map<std::string,long> knownmsgs;
  struct Viol{ Node node; int status; std::string msg; std::string outcome; }; std::vector<Viol> viols; std::vector<std::pair<Node,Result>> pending_confirm;
  std::vector<std::string> samples;
  std::vector<Node> running(jobs); std::vector<int> busy(jobs,0); int nbusy=0; std::vector<int> running_cost_count(maxb+2,0);
  double t0=now_s(); bool stop=false;
  // determinism self-check: run the default schedule twice first
  int selfcheck=replaying?0:2; uint64_t self_hash=0; int self_np=-1;
  auto dispatch=[&](int j,const Node&nd){ memset(&slots[j].r,0,sizeof(Result)); slots[j].r.status=R_CRASH; strcpy(slots[j].r.msg,"crash: exited before finishing");
      materialise(nd,slots[j].prefix); slots[j].nprefix=nd.len; slots[j].flags=nd.flags; running[j]=nd; busy[j]=1; nbusy++; running_cost_count[std::min(nd.cost,maxb+1)]++; char c=1; if(write(zs[j].cmd[1],&c,1)!=1){} };
  std::deque<Node> urgent; // confirmations
  while(true){
    // completed bound bookkeeping
    if(!stop && !hitdeadline && selfcheck==0){ int cb=-1; for(int c=0;c<=maxb;c++){ if(bucket[c].empty()&&running_cost_count[c]==0) cb=c; else break; } if(cb>completed_bound && urgent.empty()) completed_bound=cb; }
    // the deadline takes effect only after a minimal exploration (deviation bound 1 complete, or 300 executions), so that an overloaded
    // machine cannot turn a leg into an empty run; a hard limit of three times the deadline plus 20 s remains
    if(now_s()-t0>O.deadline && !hitdeadline && (completed_bound>=(maxb<1?maxb:1) || nexec>=300 || now_s()-t0>3*O.deadline+20)){ hitdeadline=true; }
    for(int j=0;j<jobs;j++) if(!busy[j]){
      if(!urgent.empty()){ Node nd=urgent.front(); urgent.pop_front(); dispatch(j,nd); continue; }
      if(stop||hitdeadline) continue; if(O.maxexec>=0 && nexec+nbusy>=O.maxexec) continue;
      if(selfcheck>0){ if(nbusy>0) break; Node nd=root; if(selfcheck==2) nd.flags=4; dispatch(j,nd); break; }
      int c=0; while(c<=maxb && bucket[c].empty()) c++; if(c>maxb) break;
      // only start cost c when all lower costs have drained their *queue* (running ones may still add to c or c+1, that is fine)
      Node nd=bucket[c].back(); bucket[c].pop_back(); dispatch(j,nd); }
    if(!nbusy) break;
    fd_set fds; FD_ZERO(&fds); int mx=0; for(int j=0;j<jobs;j++) if(busy[j]){ FD_SET(zs[j].res[0],&fds); if(zs[j].res[0]>mx) mx=zs[j].res[0]; }
    struct timeval tv={1,0}; int sr=select(mx+1,&fds,0,0,&tv); if(sr<=0) continue;
    for(int j=0;j<jobs;j++) if(busy[j] && FD_ISSET(zs[j].res[0],&fds)){ char c; if(read(zs[j].res[0],&c,1)!=1){ engine_error=true; engine_msg="zygote died"; stop=true; busy[j]=0; nbusy--; continue; }
      busy[j]=0; nbusy--; Node nd=running[j]; running_cost_count[std::min(nd.cost,maxb+1)]--; Result res=slots[j].r;
      if(verbose||replaying){ printf("exec status=%s cost=%d points=%d steps=%lu threads=%d outcome=[%s] msg=[%s] prefix=[%s]\n",status_name(res.status),res.cost,res.npoints,res.steps,res.nthreads,res.outcome,res.msg,prefix_str(nd).c_str()); }
      if(selfcheck>0){ selfcheck--; if(selfcheck==1){ self_hash=res.evhash; self_np=res.npoints; } else { if(res.evhash!=self_hash||res.npoints!=self_np){ engine_error=true; engine_msg="determinism self-check failed: default schedule differs between two runs"; stop=true; } }
        if(selfcheck==1) continue; /* second run falls through and is processed as the root execution */ }
      if(nd.flags&1){ // confirmation run
        auto it=std::find_if(pending_confirm.begin(),pending_confirm.end(),[&](const std::pair<Node,Result>&p){ return p.first.devs==nd.devs&&p.first.len==nd.len; });
        if(it==pending_confirm.end()) continue; Result first=it->second; pending_confirm.erase(it);
        int fs=first.status; bool same=(res.status==fs && !strcmp(res.msg,first.msg));
        if(fs==R_HORIZON){ if(res.status==R_HORIZON){ nhor++; } else if(is_bad(res.status)){ Node fn=nd; fn.flags=2; pending_confirm.push_back({fn,res}); Node cn=nd; cn.flags=3; urgent.push_back(cn); } continue; }
        if(!same && fs!=R_TIMEOUT){ engine_error=true; engine_msg=std::string("violation did not reproduce on replay: first [")+first.msg+"] second ["+res.msg+"] status "+status_name(res.status); stop=true; continue; }
        if(fs==R_TIMEOUT && res.status!=R_TIMEOUT){ ntimeouts++; continue; } // a slow execution, not a hang
        bool known=false; for(auto&k:O.known) if(strstr(first.msg,k.c_str())){ known=true; knownmsgs[k]++; }
        if(known){ nknown++; continue; }
        nviol++; if(viols.size()<5) viols.push_back({nd,fs,first.msg,first.outcome}); if(!O.keepgoing) stop=true; continue; }
      nexec++; totsteps+=res.steps; totpoints+=res.npoints;
      if(res.status==R_DIVERGE){ engine_error=true; engine_msg=std::string("replay divergence at prefix [")+prefix_str(nd)+"]"; stop=true; continue; }
      if(nd.len>0 && !replaying && res.status!=R_CRASH && res.status!=R_TIMEOUT && res.npoints>=nd.len && res.nenhash_at!=nd.nenhash){ engine_error=true; engine_msg=std::string("replay divergence (enabled sets differ) at prefix [")+prefix_str(nd)+"]"; stop=true; continue; }
      if(res.status==R_PRUNED){ npruned++; }
      else { std::string ok=std::string(res.outcome)+(res.status?std::string("#")+status_name(res.status):""); outcomes[ok]++; if(res.conflict){ nconfl++; outcomes_conf[ok]++; }
        if(samples.size()<4 && (res.conflict||samples.empty()) ) { char b[3000]; snprintf(b,sizeof b,"{\"schedule\":\"%s\",\"cost\":%d,\"choice_points\":%d,\"steps\":%lu,\"threads\":%d,\"status\":\"%s\",\"outcome\":\"%s\"}",prefix_str(nd).c_str(),res.cost,res.npoints,res.steps,res.nthreads,status_name(res.status),jesc(res.outcome).c_str()); samples.push_back(b);} }
      if(is_bad(res.status)){ if(replaying){ nviol++; viols.push_back({nd,res.status,res.msg,res.outcome}); } else { Node cn=nd; cn.flags|=1; if(res.status==R_HANG||res.status==R_TIMEOUT) cn.flags|=2; pending_confirm.push_back({nd,res}); urgent.push_back(cn); } }
      else if(res.status==R_HORIZON && !replaying){ Node cn=nd; cn.flags|=3; pending_confirm.push_back({nd,res}); urgent.push_back(cn); }
      // expansion
      if(!replaying && !stop && res.status!=R_CRASH && res.status!=R_TIMEOUT){ int np=res.npoints; expanded+= (np>nd.len? np-nd.len:0);
        uint64_t h=0; for(int i=0;i<nd.len&&i<np;i++) h=mix(h,res.nen[i]);
        for(int k=nd.len;k<np;k++){ int cst=res.costfree[k]?0:1; int ncst=nd.cost+cst;
          if(ncst<=maxb){ for(int alt=1;alt<res.nen[k];alt++){ Node nn; nn.devs=nd.devs; nn.devs.push_back({(unsigned short)k,(unsigned char)alt}); nn.len=k+1; nn.cost=ncst; nn.flags=0;
              nn.nenhash=mix(h,res.nen[k]); bucket[ncst].push_back(std::move(nn)); } }
          h=mix(h,res.nen[k]); } }
    }
  }
  for(int j=0;j<jobs;j++){ kill(zs[j].pid,SIGKILL); waitpid(zs[j].pid,0,0); }
  double wall=now_s()-t0;
  bool exhaustive = !hitdeadline && !stop && !engine_error && (O.maxexec<0) && completed_bound>=maxb;
  long states = use_fp? *vcount : expanded+1;
  printf("SUMMARY tag=%s bound=%d completed_bound=%d exhaustive=%d executions=%ld pruned=%ld violations=%ld known=%ld horizon_unresolved=%ld slow=%ld distinct_outcomes=%zu conflict_outcomes=%zu states=%ld steps=%lu avg_points=%.0f wall=%.2fs (%.0f exec/s)\n",O.tag.c_str(),maxb,completed_bound,(int)exhaustive,nexec,npruned,nviol,nknown,nhor,ntimeouts,outcomes.size(),outcomes_conf.size(),states,totsteps,nexec?(double)totpoints/nexec:0,wall,nexec/(wall>0?wall:1));
  if(verbose||replaying||outcomes.size()<=12){ int shown=0; for(auto&o:outcomes){ if(shown++<40) printf("  outcome[%ld]: %s\n",o.second,o.first.c_str()); } }
  std::string replaypath;
  if(engine_error) printf("ENGINE-ERROR %s\n",engine_msg.c_str());
  for(size_t i=0;i<viols.size();i++){ auto&v=viols[i]; printf("FOUND %s: %s  schedule=[%s]\n",status_name(v.status),v.msg.c_str(),prefix_str(v.node).c_str());
    if(!replaying && i==0){ std::string cmd="mkdir -p "+O.replaydir; if(system(cmd.c_str())){} replaypath=O.replaydir+"/"+O.tag+".vfr"; FILE*f=fopen(replaypath.c_str(),"w"); if(f){ fprintf(f,"# vsched replay file\nbinary=%s\nargs=",argv[0]); for(int a=1;a<argc;a++){ std::string s=argv[a]; if(s=="-json"||s=="-deadline"||s=="-b"||s=="-j"||s=="-tag"||s=="-replaydir"||s=="-n"){ a++; continue;} if(s=="-fp"||s=="-keepgoing") continue; if(s=="-known"){ a++; continue; } fprintf(f,"'%s' ",argv[a]); } fprintf(f,"\nschedule=%s\nstatus=%s\nmessage=%s\noutcome=%s\n",prefix_str(v.node).c_str(),status_name(v.status),v.msg.c_str(),v.outcome.c_str()); fclose(f);} } }
  if(!O.json.empty()){ FILE*f=fopen(O.json.c_str(),"w"); if(f){
    fprintf(f,"{\"tag\":\"%s\",\"bound\":%d,\"completed_bound\":%d,\"exhaustive\":%s,\"executions\":%ld,\"pruned\":%ld,\"violations\":%ld,\"known\":%ld,\"horizon_unresolved\":%ld,\"slow_executions\":%ld,\"distinct_outcomes\":%zu,\"distinct_conflict_outcomes\":%zu,\"conflict_executions\":%ld,\"states\":%ld,\"transitions\":%lu,\"choice_points\":%lu,\"wall_s\":%.3f,\"fp_pruning\":%s,\"engine_error\":%s,\"engine_msg\":\"%s\",\"replay\":\"%s\",",
      O.tag.c_str(),maxb,completed_bound,exhaustive?"true":"false",nexec,npruned,nviol,nknown,nhor,ntimeouts,outcomes.size(),outcomes_conf.size(),nconfl,states,totsteps,totpoints,wall,use_fp?"true":"false",engine_error?"true":"false",jesc(engine_msg).c_str(),jesc(replaypath).c_str());
    { uint64_t oh=0; for(auto&o:outcomes){ uint64_t h=0x55; for(char c:o.first) h=mix(h,(unsigned char)c); oh^=h; } fprintf(f,"\"outcome_set_hash\":\"%016lx\",",(unsigned long)oh); }
    fprintf(f,"\"violation_msgs\":["); for(size_t i=0;i<viols.size();i++) fprintf(f,"%s\"%s: %s\"",i?",":"",status_name(viols[i].status),jesc(viols[i].msg).c_str()); fprintf(f,"],");
    fprintf(f,"\"known_msgs\":{"); { int i=0; for(auto&k:knownmsgs) fprintf(f,"%s\"%s\":%ld",i++?",":"",jesc(k.first).c_str(),k.second); } fprintf(f,"},");
    fprintf(f,"\"outcomes\":["); { int i=0; for(auto&o:outcomes){ if(i>=24) break; fprintf(f,"%s[\"%s\",%ld]",i++?",":"",jesc(o.first).c_str(),o.second);} } fprintf(f,"],");
    fprintf(f,"\"samples\":["); for(size_t i=0;i<samples.size();i++) fprintf(f,"%s%s",i?",":"",samples[i].c_str()); fprintf(f,"]}\n"); fclose(f);} }
  if(engine_error) return 2;
  if(nviol) return 1;
  return 0;
}

// ================================================================== in-process explorer (single-threaded harnesses)
// scenario(case) is re-executed in this process for every choice prefix (DFS, deviation bound); cases are sharded over
// forked workers.  vf_choose is the only source of nondeterminism; vf_fail ends the worker (the state may be corrupt).
struct vf_known_abort {};
struct IPShared { long execs, points, cases; long viol; long distinct; long known; long timedout; long cases_done; char msg[512]; long vcase; int vlen; unsigned char vprefix[MAXP]; char voutcome[2048]; char sample[4][1024]; int nsample; unsigned long ohash[1<<16]; };
static IPShared* IP; static int ip_worker=-1; static long ip_case=0; static Result ipres; static unsigned char ipprefix[MAXP];
static std::set<uint64_t>* ip_out;
// Watchdog of the in-process explorer: harnesses built without instrumentation perform no counted steps, so a call that spins forever
// would block the worker.  Every execution runs under alarm(case_timeout); on expiry the worker jumps out of the scenario and reports
// a hang (or counts a known finding and goes on with the next case).
#include <setjmp.h>
static sigjmp_buf ip_jb; static volatile int ip_in_case=0; static int ip_case_timeout=180;
static void ip_alarm(int){ if(ip_in_case) siglongjmp(ip_jb,1); }
extern "C" int vf_main_cases(int argc,char**argv,long ncases,void(*scenario)(long)){
  parse_args(argc,argv); setvbuf(stdout,0,_IOLBF,0);
  long only_case=vf_param_int("case",-1); int jobs=O.jobs; bool replaying=!O.replay.empty()||only_case>=0; if(replaying) jobs=1;
  IPShared* sh=(IPShared*)mmap(0,sizeof(IPShared)*jobs,PROT_READ|PROT_WRITE,MAP_SHARED|MAP_ANONYMOUS,-1,0);
  double t0=now_s(); std::vector<pid_t> pids; fflush(stdout);
  ip_case_timeout=(int)vf_param_int("case_timeout",O.exec_timeout>20?O.exec_timeout:180); if(vf_param_int("case_timeout",-1)>0) ip_case_timeout=(int)(ip_case_timeout*g_overload)+1;   // an explicit limit is stretched like the others
  for(int j=0;j<jobs;j++){ pid_t p=fork(); if(p==0){ signal(SIGALRM,ip_alarm); IP=&sh[j]; ip_worker=j; R=&ipres; prefix=ipprefix; active=1; inproc=1; window=1; me=0; nth=1; th[0].st=ST_RUN; horizon=~0ul; std::set<uint64_t> outs; ip_out=&outs;
      for(long c=(only_case>=0?only_case:j); c<ncases; c+=jobs){ ip_case=c; IP->cases++;
        struct PN{ std::vector<unsigned char> p; int cost; }; std::vector<PN> stack; PN r0; r0.cost=0;
        if(!O.replay.empty()){ const char*s=O.replay.c_str(); while(*s){ int pp=strtol(s,(char**)&s,10); if(*s==':'){ s++; int a=strtol(s,(char**)&s,10); if((int)r0.p.size()<pp+1) r0.p.resize(pp+1,0); r0.p[pp]=(unsigned char)a; } while(*s==','||*s==' ') s++; if(*s && !(*s>='0'&&*s<='9')) break; } }
        stack.push_back(r0);
        while(!stack.empty()){ if((IP->execs&1023)==0 && now_s()-t0>O.deadline){ IP->timedout=1; break; } PN n=std::move(stack.back()); stack.pop_back(); nprefix=(int)n.p.size(); memcpy(ipprefix,n.p.data(),nprefix); ipoint=0; mycost=0; steps=0; stampctr=0; ipres.outcome[0]=0; ipres.conflict=0; vf_rt_reset();
          IP->vcase=c; IP->vlen=nprefix; memcpy(IP->vprefix,ipprefix,nprefix);
          ip_in_case=1;
          if(sigsetjmp(ip_jb,1)==0){ alarm(ip_case_timeout); try { scenario(c); } catch(vf_known_abort&) {} alarm(0); }
          else { char b[256]; snprintf(b,sizeof b,"hang: the execution did not finish within %d s (a call spins or blocks on a condition that never becomes true)%s%s",ip_case_timeout,ipres.outcome[0]?" after: ":"",ipres.outcome[0]?ipres.outcome:"");
            bool known=false; for(auto&k:O.known) if(strstr(b,k.c_str())) known=true;
            if(known) IP->known++; else { IP->viol=1; strncpy(IP->msg,b,511); strncpy(IP->voutcome,ipres.outcome,2047); _exit(3); } }
          ip_in_case=0;
          IP->execs++; IP->points+=ipoint; uint64_t oh=mix(0x77,c); for(char*q=ipres.outcome;*q;q++) oh=mix(oh,(unsigned char)*q); if(outs.insert(oh).second){ IP->distinct++; if(IP->nsample<4 && (IP->execs%7==1||IP->nsample==0)){ snprintf(IP->sample[IP->nsample++],1024,"case %ld schedule-len %d: %s",c,ipoint,ipres.outcome);} }
          if(verbose) printf("case %ld cost=%d points=%d outcome=[%s]\n",c,mycost,ipoint,ipres.outcome);
          if(O.replay.empty()) for(int k=nprefix;k<ipoint;k++){ if(n.cost+1>O.bound) break; for(int alt=1;alt<ipres.nen[k];alt++){ PN nn; nn.p.assign(ipprefix,ipprefix+k); for(int z=nprefix;z<k;z++) nn.p[z]=0; nn.p.push_back((unsigned char)alt); nn.cost=n.cost+1; stack.push_back(std::move(nn)); } }
        }
        if(IP->timedout) break; IP->cases_done++; if(only_case>=0) break; }
      _exit(0);} pids.push_back(p); }
  bool crashed=false; int crashj=-1; for(int j=0;j<jobs;j++){ int st; waitpid(pids[j],&st,0); if(WIFSIGNALED(st)){ crashed=true; crashj=j; if(!sh[j].viol){ sh[j].viol=1; snprintf(sh[j].msg,512,"crash: signal %d (%s)",WTERMSIG(st),strsignal(WTERMSIG(st))); } } else if(WIFEXITED(st)&&WEXITSTATUS(st)==3){} else if(WIFEXITED(st)&&WEXITSTATUS(st)!=0){ if(!sh[j].viol){ sh[j].viol=1; snprintf(sh[j].msg,512,"crash: worker exited with status %d",WEXITSTATUS(st)); } } }
  (void)crashed;(void)crashj;
  long execs=0,points=0,cases=0,viol=0,distinct=0,knownn=0,timedout=0,cases_done=0; int vj=-1; for(int j=0;j<jobs;j++){ knownn+=sh[j].known; timedout+=sh[j].timedout; cases_done+=sh[j].cases_done; execs+=sh[j].execs; points+=sh[j].points; cases+=sh[j].cases; distinct+=sh[j].distinct; if(sh[j].viol){ viol++; if(vj<0) vj=j; } }
  double wall=now_s()-t0; std::string replaypath;
  printf("SUMMARY tag=%s mode=inproc bound=%d deadline_hit=%ld cases_done=%ld cases=%ld executions=%ld choice_points=%ld distinct_outcomes=%ld violations=%ld wall=%.2fs\n",O.tag.c_str(),O.bound,timedout,cases_done,cases,execs,points,distinct,viol,wall);
  std::string vsched_s;
  if(vj>=0){ IPShared&v=sh[vj]; for(int i=0;i<v.vlen;i++) if(v.vprefix[i]){ if(!vsched_s.empty()) vsched_s+=","; vsched_s+=std::to_string(i)+":"+std::to_string(v.vprefix[i]); }
    printf("FOUND violation: %s  case=%ld schedule=[%s]\n",v.msg,v.vcase,vsched_s.c_str());
    if(!replaying){ std::string cmd="mkdir -p "+O.replaydir; if(system(cmd.c_str())){} replaypath=O.replaydir+"/"+O.tag+".vfr"; FILE*f=fopen(replaypath.c_str(),"w"); if(f){ fprintf(f,"# vsched replay file (in-process harness)\nbinary=%s\nargs=",argv[0]); for(int a=1;a<argc;a++){ std::string s=argv[a]; if(s=="-json"||s=="-deadline"||s=="-b"||s=="-j"||s=="-tag"||s=="-replaydir"||s=="-n"||s=="-known"){ a++; continue;} fprintf(f,"'%s' ",argv[a]); } fprintf(f,"-p case=%ld \nschedule=%s\nstatus=violation\nmessage=%s\n",v.vcase,vsched_s.empty()?"0:0":vsched_s.c_str(),v.msg); fclose(f);} } }
  if(!O.json.empty()){ FILE*f=fopen(O.json.c_str(),"w"); if(f){ fprintf(f,"{\"tag\":\"%s\",\"mode\":\"inproc\",\"bound\":%d,\"completed_bound\":%d,\"exhaustive\":%s,\"executions\":%ld,\"pruned\":0,\"violations\":%ld,\"known\":%ld,\"horizon_unresolved\":0,\"slow_executions\":0,\"distinct_outcomes\":%ld,\"distinct_conflict_outcomes\":%ld,\"conflict_executions\":%ld,\"states\":%ld,\"transitions\":%ld,\"choice_points\":%ld,\"cases\":%ld,\"cases_completed\":%ld,\"wall_s\":%.3f,\"fp_pruning\":false,\"engine_error\":false,\"engine_msg\":\"\",\"replay\":\"%s\",",
      O.tag.c_str(),O.bound,(viol||timedout)?-1:O.bound,(viol||timedout)?"false":"true",execs,viol,knownn,distinct,distinct,execs,points+cases,points+execs,points,cases,cases_done,wall,jesc(replaypath).c_str());
      fprintf(f,"\"violation_msgs\":["); if(vj>=0) fprintf(f,"\"violation: %s (case %ld)\"",jesc(sh[vj].msg).c_str(),sh[vj].vcase); fprintf(f,"],\"known_msgs\":{"); if(knownn&&!O.known.empty()) fprintf(f,"\"%s\":%ld",jesc(O.known[0]).c_str(),knownn); fprintf(f,"},\"outcomes\":[],\"samples\":["); int ns=0; for(int j=0;j<jobs&&ns<4;j++) for(int i=0;i<sh[j].nsample&&ns<4;i++) fprintf(f,"%s\"%s\"",ns++?",":"",jesc(sh[j].sample[i]).c_str()); fprintf(f,"]}\n"); fclose(f);} }
  return viol?1:0;
}
// in-process mode: vf_fail must stop the worker
extern "C" void vf_ip_fail(const char*b){ for(auto&k:O.known) if(strstr(b,k.c_str())){ IP->known++; throw vf_known_abort(); }   // a listed known finding: abandon this execution, keep exploring
  IP->viol=1; strncpy(IP->msg,b,511); strncpy(IP->voutcome,ipres.outcome,2047); _exit(3); }

// ================================================================== custom explicit-state searches (harness-owned BFS)
extern "C" int vf_main_custom(int argc,char**argv,void(*search)(struct vf_custom_result*)){
  parse_args(argc,argv); setvbuf(stdout,0,_IOLBF,0); double t0=now_s(); vf_custom_result r; memset(&r,0,sizeof r); r.depth=O.bound; r.exhaustive=1;
  search(&r); double wall=now_s()-t0; std::string replaypath;
  printf("SUMMARY tag=%s mode=custom depth=%d states=%ld transitions=%ld executions=%ld distinct_outcomes=%ld violations=%d wall=%.2fs\n",O.tag.c_str(),O.bound,r.states,r.transitions,r.executions,r.distinct,r.violation[0]?1:0,wall);
  if(r.violation[0]){ printf("FOUND violation: %s\n  trace: %s\n",r.violation,r.trace); std::string cmd="mkdir -p "+O.replaydir; if(system(cmd.c_str())){} replaypath=O.replaydir+"/"+O.tag+".vfr"; FILE*f=fopen(replaypath.c_str(),"w"); if(f){ fprintf(f,"# explicit-state search counterexample\nbinary=%s\nargs=",argv[0]); for(int a=1;a<argc;a++){ std::string s=argv[a]; if(s=="-json"||s=="-deadline"||s=="-j"||s=="-tag"||s=="-replaydir"||s=="-n"||s=="-known"){ a++; continue;} fprintf(f,"'%s' ",argv[a]); } fprintf(f,"\nschedule=0:0\nstatus=violation\nmessage=%s\ntrace=%s\n",r.violation,r.trace); fclose(f);} }
  if(!O.json.empty()){ FILE*f=fopen(O.json.c_str(),"w"); if(f){ fprintf(f,"{\"tag\":\"%s\",\"mode\":\"custom\",\"bound\":%d,\"completed_bound\":%d,\"exhaustive\":%s,\"executions\":%ld,\"pruned\":0,\"violations\":%d,\"known\":0,\"horizon_unresolved\":0,\"slow_executions\":0,\"distinct_outcomes\":%ld,\"distinct_conflict_outcomes\":%ld,\"conflict_executions\":%ld,\"states\":%ld,\"transitions\":%ld,\"choice_points\":%ld,\"wall_s\":%.3f,\"fp_pruning\":false,\"engine_error\":false,\"engine_msg\":\"\",\"replay\":\"%s\",\"violation_msgs\":[",
      O.tag.c_str(),O.bound,r.violation[0]?-1:O.bound,(r.exhaustive&&!r.violation[0])?"true":"false",r.executions,r.violation[0]?1:0,r.distinct,r.distinct,r.executions,r.states,r.transitions,r.transitions,wall,jesc(replaypath).c_str());
      if(r.violation[0]) fprintf(f,"\"violation: %s | trace: %s\"",jesc(r.violation).c_str(),jesc(r.trace).c_str()); fprintf(f,"],\"known_msgs\":{},\"outcomes\":[],\"samples\":["); for(int i=0;i<r.nsamples;i++) fprintf(f,"%s\"%s\"",i?",":"",jesc(r.samples[i]).c_str()); fprintf(f,"]}\n"); fclose(f);} }
  return r.violation[0]?1:0; }
