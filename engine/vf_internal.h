// internal interface between the scheduler/explorer (vsched.cpp) and the atomic runtime (vrt.cpp)
#pragma once
#include "vf.h"
extern "C" {
// scheduling point before an atomic access; w: 0 load, 1 store/rmw.  op is a short mnemonic for traces.
void vf_point_rw(const void* addr, int w, const char* op);
// scheduling point that is a local event (fences)
void vf_point_local(const char* op);
// add a local event to the running thread's fingerprint chain (no scheduling point)
void vf_fp_local(uint64_t x);
// add a read/write event on addr to the fingerprint without a scheduling point
void vf_fp_event(const void* addr, int w);
int  vf_is_active(void);     // scheduler on and caller is a registered thread
int  vf_mode_hb(void);
int  vf_mode_tso(void);
int  vf_nthreads(void);
// called by the scheduler core at points where a TSO store buffer must drain
void vf_tso_drain(void);
void vf_tso_reset_thread(int t);
// HB hooks
void vf_hb_fork(int parent, int child);
void vf_hb_join(int joiner, int child);
void vf_hb_release(const void* addr);   // generic release edge (futex wake, mutex unlock, gate open)
void vf_hb_acquire(const void* addr);   // generic acquire edge
void vf_rt_reset(void);                 // fresh execution (in-process mode)
}
