// vtbb.cpp - an abstract task scheduler: replacement for the r1:: task-scheduler entry points that the header-only
// algorithms (parallel_for/reduce/scan/sort/invoke/for_each, task_group, flow graph) and parallel_pipeline.cpp call.
// P virtual workers with LIFO deques, FIFO stealing, affinity mail, a shared FIFO stream; single OS thread; every
// "which worker takes which ready task next" is a vf_choose(), so the explorer enumerates task-level schedules.
// Mirrors the real dispatcher where the algorithms can observe it: execution_data (original/affinity slot, bypass keeps the
// current context), cancel() instead of execute() for cancelled groups, exception -> first canceller stores it, the task is
// re-entered through cancel(), execute_and_wait rethrows after the wait.  DESIGN.md section 5.
#define __TBB_BUILD 1
#include "oneapi/tbb/detail/_task.h"
#include "oneapi/tbb/detail/_small_object_pool.h"
#include "oneapi/tbb/task_group.h"
#include "oneapi/tbb/task_arena.h"
#include "oneapi/tbb/cache_aligned_allocator.h"
#include "oneapi/tbb/tbb_allocator.h"
#include "oneapi/tbb/profiling.h"
#include "vtbb.h"
#include "vf.h"
#include <vector>
#include <deque>
#include <map>
#include <set>
#include <cstdio>
#include <cstdlib>
#include <exception>
#include <stdexcept>

using namespace tbb::detail;
namespace tbb { namespace detail { namespace r1 {
struct task_accessor {   // same layout as src/tbb/scheduler_common.h
    static d1::task_group_context*& context(d1::task& t) { return *reinterpret_cast<d1::task_group_context**>(&t.m_reserved[0]); }
    static std::intptr_t& isolation(d1::task& t) { return *reinterpret_cast<std::intptr_t*>(&t.m_reserved[2]); }
};
}}}

namespace vtbb {
struct Item { d1::task* t; int origin; int affinity; std::intptr_t isolation; };
struct Worker { std::deque<Item> dq; int busy = 0; };
struct Frame { int worker; std::intptr_t isolation; };
struct ExecData : d1::execution_data { int worker; };
static bool nested_on = false;
static int P = 2, cur = 0; static std::vector<Worker> W; static std::deque<Item> stream; static std::vector<Frame> frames;
static std::vector<d1::task_group_context*> ctx_stack; static std::intptr_t cur_isolation = 0;
static std::set<d1::task_group_context*> live_ctx; static std::map<d1::task_group_context*, std::exception_ptr> exc;
static long cache_allocs = 0; static bool (*idle_hook)() = nullptr; static long allocs = 0, steals = 0, mails = 0, executed = 0, cancelled_tasks = 0; static int max_conc = 0;
Stats stats() { Stats s; s.steals = steals; s.mails = mails; s.executed = executed; s.cancelled = cancelled_tasks; s.outstanding_allocations = allocs; s.cache_allocs = cache_allocs; return s; }
void enable_nested(bool on) { nested_on = on; }
void init(int p, int reported_concurrency) { P = p; nested_on = vf_param_int("nested", 0) != 0; W.assign(p, Worker()); cur = 0; stream.clear(); frames.clear(); ctx_stack.clear(); cur_isolation = 0; live_ctx.clear(); exc.clear(); allocs = steals = mails = executed = cancelled_tasks = 0; cache_allocs = 0; idle_hook = nullptr; max_conc = reported_concurrency > 0 ? reported_concurrency : p; }
int current_worker() { return cur; }
void finish() { for (auto& w : W) if (!w.dq.empty()) vf_fail("vtbb: %zu spawned tasks were never executed (wait returned while work was pending)", w.dq.size()); if (!stream.empty()) vf_fail("vtbb: %zu enqueued tasks were never executed", stream.size()); if (allocs != 0) vf_fail("vtbb: %ld task objects were not deallocated exactly once", allocs); }

static bool is_cancelled(d1::task_group_context* c) { return c->my_cancellation_requested.load(std::memory_order_relaxed) != 0; }
static void bind(d1::task_group_context& c) {
    if (c.my_state.load(std::memory_order_relaxed) != d1::task_group_context::state::created) return;
    d1::task_group_context* parent = ctx_stack.empty() ? nullptr : ctx_stack.back();
    if (c.my_traits.bound && parent) { c.my_parent = parent; if (is_cancelled(parent)) c.my_cancellation_requested.store(1, std::memory_order_relaxed); c.my_state.store(d1::task_group_context::state::bound, std::memory_order_relaxed); }
    else c.my_state.store(d1::task_group_context::state::isolated, std::memory_order_relaxed);
}
static bool do_cancel(d1::task_group_context& c) {
    if (c.my_cancellation_requested.exchange(1)) return false;
    for (auto* x : live_ctx) for (auto* a = x->my_state.load(std::memory_order_relaxed) == d1::task_group_context::state::bound ? x->my_parent : nullptr; a; a = a->my_state.load(std::memory_order_relaxed) == d1::task_group_context::state::bound ? a->my_parent : nullptr) if (a == &c) { x->my_cancellation_requested.store(1, std::memory_order_relaxed); break; }
    return true;
}

static void run_task(Item it, int w) {
    ExecData ed; ed.worker = w; d1::task* t = it.t; int saved = cur; std::intptr_t saved_iso = cur_isolation; cur = w; W[w].busy++;
    ed.context = r1::task_accessor::context(*t); ed.original_slot = (d1::slot_id)it.origin; ed.affinity_slot = it.affinity >= 0 ? (d1::slot_id)it.affinity : d1::no_slot; cur_isolation = it.isolation;
    ctx_stack.push_back(ed.context);
    for (;;) {                               // "infinite exception loop" of the real dispatcher
        try {
            while (t) {
                d1::task* next;
                if (is_cancelled(ed.context)) { cancelled_tasks++; next = t->cancel(ed); } else { executed++; next = t->execute(ed); }
                t = next; ed.affinity_slot = d1::no_slot; ed.original_slot = (d1::slot_id)w;   // a bypassed task keeps the current context
            }
            break;
        } catch (...) {
            if (do_cancel(*ed.context)) exc[ed.context] = std::current_exception();
        }
    }
    ctx_stack.pop_back(); W[w].busy--; cur = saved; cur_isolation = saved_iso;
}
struct Move { int w; int src; /* -1 own pop, -2 stream, -3 mail from src2, >=0 steal from src */ int src2; };
static void moves_for(int w, bool waiting_frame, std::intptr_t iso, std::vector<Move>& mv) {
    auto ok = [&](const Item& i) { return !waiting_frame || iso == 0 || i.isolation == iso; };
    if (!W[w].dq.empty() && ok(W[w].dq.back())) mv.push_back({w, -1, 0});
    for (int v = 0; v < P; v++) if (v != w) for (size_t k = 0; k < W[v].dq.size(); k++) if (W[v].dq[k].affinity == w && ok(W[v].dq[k])) { mv.push_back({w, -3, v}); break; }
    for (int v = 0; v < P; v++) if (v != w && !W[v].dq.empty() && ok(W[v].dq.front())) mv.push_back({w, v, 0});
    if (!stream.empty() && ok(stream.front())) mv.push_back({w, -2, 0});
}
// one scheduling step on behalf of the innermost waiting frame; returns false if no worker can take anything
static bool step(bool only_others = false) {
    std::vector<Move> mv; Frame f = frames.empty() ? Frame{cur, 0} : frames.back();
    if (!only_others) moves_for(f.worker, true, f.isolation, mv);
    for (int k = 1; k <= P; k++) { int w = (f.worker + k) % P; if (w == f.worker) continue; if (W[w].busy == 0) moves_for(w, false, 0, mv); }
    if (mv.empty()) return false;
    Move m = mv[vf_choose((int)mv.size())]; Item it;
    if (m.src == -1) { it = W[m.w].dq.back(); W[m.w].dq.pop_back(); }
    else if (m.src == -2) { it = stream.front(); stream.pop_front(); }
    else if (m.src == -3) { auto& q = W[m.src2].dq; size_t k = 0; while (q[k].affinity != m.w) k++; it = q[k]; q.erase(q.begin() + k); mails++; }
    else { it = W[m.src].dq.front(); W[m.src].dq.pop_front(); steals++; }
    run_task(it, m.w); return true;
}
bool interleave() { if (vf_choose(2) == 0) return false; return step(true); }
// A body that itself waits for nested parallel work re-enters the dispatcher on its own worker: that wait may pop the worker's
// own deque (e.g. the not yet stolen sibling of the task whose body is running), take mail, steal, or take from the stream.
bool nested() { if (!nested_on || vf_choose(2) == 0) return false; frames.push_back({cur, cur_isolation}); std::vector<Move> mv; moves_for(cur, true, cur_isolation, mv); bool r = false;
    if (!mv.empty()) { Move m = mv[vf_choose((int)mv.size())]; Item it;
        if (m.src == -1) { it = W[m.w].dq.back(); W[m.w].dq.pop_back(); } else if (m.src == -2) { it = stream.front(); stream.pop_front(); }
        else if (m.src == -3) { auto& q = W[m.src2].dq; size_t k = 0; while (q[k].affinity != m.w) k++; it = q[k]; q.erase(q.begin() + k); mails++; }
        else { it = W[m.src].dq.front(); W[m.src].dq.pop_front(); steals++; }
        run_task(it, m.w); r = true; }
    frames.pop_back(); return r; }
void set_idle_hook(bool (*h)()) { idle_hook = h; }
int run_others(int n) { int k = 0; while (k < n && step(true)) k++; return k; }
static void wait_loop(d1::wait_context& wc) {
    frames.push_back({cur, cur_isolation});
    while (wc.m_ref_count.load(std::memory_order_acquire) > 0) if (!step() && !(idle_hook && idle_hook())) vf_fail("vtbb: a wait can never return: its reference count is %lu but no task is left to run", (unsigned long)wc.m_ref_count.load());
    frames.pop_back();
}
static void rethrow(d1::task_group_context& c) { auto it = exc.find(&c); if (it != exc.end() && it->second) { std::exception_ptr e = it->second; std::rethrow_exception(e); } }
} // namespace vtbb

namespace tbb { namespace detail { namespace r1 {
using namespace vtbb;
void __TBB_EXPORTED_FUNC spawn(d1::task& t, d1::task_group_context& ctx) { bind(ctx); task_accessor::context(t) = &ctx; task_accessor::isolation(t) = cur_isolation; W[cur].dq.push_back({&t, cur, -1, cur_isolation}); }
void __TBB_EXPORTED_FUNC spawn(d1::task& t, d1::task_group_context& ctx, d1::slot_id id) { bind(ctx); task_accessor::context(t) = &ctx; task_accessor::isolation(t) = cur_isolation; int a = (id != d1::no_slot && (int)id < P && (int)id != cur) ? (int)id : -1; W[cur].dq.push_back({&t, cur, a, cur_isolation}); }
void __TBB_EXPORTED_FUNC execute_and_wait(d1::task& t, d1::task_group_context& t_ctx, d1::wait_context& wc, d1::task_group_context& w_ctx) {
    bind(t_ctx); bind(w_ctx); task_accessor::context(t) = &t_ctx; task_accessor::isolation(t) = cur_isolation;
    run_task({&t, cur, -1, cur_isolation}, cur); wait_loop(wc); rethrow(w_ctx); }
void __TBB_EXPORTED_FUNC wait(d1::wait_context& wc, d1::task_group_context& ctx) { bind(ctx); wait_loop(wc); rethrow(ctx); }
d1::slot_id __TBB_EXPORTED_FUNC execution_slot(const d1::execution_data* ed) { return ed ? (d1::slot_id) static_cast<const ExecData*>(ed)->worker : (d1::slot_id)cur; }
d1::slot_id __TBB_EXPORTED_FUNC execution_slot(const d1::task_arena_base&) { return (d1::slot_id)cur; }
d1::task_group_context* __TBB_EXPORTED_FUNC current_context() { return ctx_stack.empty() ? nullptr : ctx_stack.back(); }
d1::wait_tree_vertex_interface* get_thread_reference_vertex(d1::wait_tree_vertex_interface* top) { return top; }
void __TBB_EXPORTED_FUNC notify_waiters(std::uintptr_t) {}
void __TBB_EXPORTED_FUNC suspend(suspend_callback_type, void*) { vf_fail("vtbb: task::suspend is not modelled"); }
void __TBB_EXPORTED_FUNC resume(suspend_point_type*) { vf_fail("vtbb: task::resume is not modelled"); }
suspend_point_type* __TBB_EXPORTED_FUNC current_suspend_point() { return nullptr; }

void* __TBB_EXPORTED_FUNC allocate(d1::small_object_pool*& pool, std::size_t n, const d1::execution_data&) { pool = reinterpret_cast<d1::small_object_pool*>(1); allocs++; return aligned_alloc(64, (n + 63) / 64 * 64); }
void* __TBB_EXPORTED_FUNC allocate(d1::small_object_pool*& pool, std::size_t n) { pool = reinterpret_cast<d1::small_object_pool*>(1); allocs++; return aligned_alloc(64, (n + 63) / 64 * 64); }
void __TBB_EXPORTED_FUNC deallocate(d1::small_object_pool&, void* p, std::size_t, const d1::execution_data&) { allocs--; free(p); }
void __TBB_EXPORTED_FUNC deallocate(d1::small_object_pool&, void* p, std::size_t) { allocs--; free(p); }

void __TBB_EXPORTED_FUNC initialize(d1::task_group_context& c) { c.my_node.my_next_node = &c.my_node; c.my_node.my_prev_node = &c.my_node; c.my_cpu_ctl_env = 0; c.my_cancellation_requested = 0; c.my_may_have_children.store(0, std::memory_order_relaxed);
    c.my_state.store(d1::task_group_context::state::created, std::memory_order_relaxed); c.my_parent = nullptr; c.my_context_list = nullptr; c.my_exception.store(nullptr, std::memory_order_relaxed); c.my_itt_caller = nullptr; live_ctx.insert(&c); }
void __TBB_EXPORTED_FUNC destroy(d1::task_group_context& c) { live_ctx.erase(&c); exc.erase(&c); c.my_state.store(d1::task_group_context::state::dead, std::memory_order_relaxed); }
void __TBB_EXPORTED_FUNC reset(d1::task_group_context& c) { exc.erase(&c); c.my_cancellation_requested = 0; }
bool __TBB_EXPORTED_FUNC cancel_group_execution(d1::task_group_context& c) { return do_cancel(c); }
bool __TBB_EXPORTED_FUNC is_group_execution_cancelled(d1::task_group_context& c) { return is_cancelled(&c); }
void __TBB_EXPORTED_FUNC capture_fp_settings(d1::task_group_context&) {}

// ---- arenas: one implicit arena
class arena { public: int dummy; };
static arena the_arena;
bool __TBB_EXPORTED_FUNC attach(d1::task_arena_base& ta) { ta.my_arena.store(&the_arena); ta.my_max_concurrency = max_conc; return true; }
void __TBB_EXPORTED_FUNC initialize(d1::task_arena_base& ta) { ta.my_arena.store(&the_arena); if (ta.my_max_concurrency < 1) ta.my_max_concurrency = max_conc; }
void __TBB_EXPORTED_FUNC terminate(d1::task_arena_base& ta) { ta.my_arena.store(nullptr); }
void __TBB_EXPORTED_FUNC execute(d1::task_arena_base&, d1::delegate_base& d) { d(); }
void __TBB_EXPORTED_FUNC wait(d1::task_arena_base&) { while (step()) {} }
int __TBB_EXPORTED_FUNC max_concurrency(const d1::task_arena_base* ta) { if (ta && ta->my_max_concurrency > 0) return ta->my_max_concurrency; return max_conc; }
void __TBB_EXPORTED_FUNC isolate_within_arena(d1::delegate_base& d, std::intptr_t iso) { std::intptr_t saved = cur_isolation; cur_isolation = iso ? iso : reinterpret_cast<std::intptr_t>(&d); try { d(); } catch (...) { cur_isolation = saved; throw; } cur_isolation = saved; }
void __TBB_EXPORTED_FUNC enqueue(d1::task& t, d1::task_arena_base*) { static d1::task_group_context dflt(d1::task_group_context::isolated); bind(dflt); task_accessor::context(t) = &dflt; task_accessor::isolation(t) = 0; stream.push_back({&t, cur, -1, 0}); }
void __TBB_EXPORTED_FUNC enqueue(d1::task& t, d1::task_group_context& ctx, d1::task_arena_base*) { bind(ctx); task_accessor::context(t) = &ctx; task_accessor::isolation(t) = 0; stream.push_back({&t, cur, -1, 0}); }
void __TBB_EXPORTED_FUNC submit(d1::task& t, d1::task_group_context& ctx, arena*, std::uintptr_t) { bind(ctx); task_accessor::context(t) = &ctx; task_accessor::isolation(t) = 0; stream.push_back({&t, cur, -1, 0}); }
void __TBB_EXPORTED_FUNC observe(d1::task_scheduler_observer&, bool) {}

bool terminate_on_exception() { return false; }
// ---- memory and profiling stubs
void* __TBB_EXPORTED_FUNC cache_aligned_allocate(std::size_t n) { vtbb::cache_allocs++; void* p = aligned_alloc(128, (n + 127) / 128 * 128); if (!p) throw std::bad_alloc(); return p; }
void __TBB_EXPORTED_FUNC cache_aligned_deallocate(void* p) { free(p); }
std::size_t __TBB_EXPORTED_FUNC cache_line_size() { return 128; }
void* __TBB_EXPORTED_FUNC allocate_memory(std::size_t n) { void* p = malloc(n ? n : 1); if (!p) throw std::bad_alloc(); return p; }
void __TBB_EXPORTED_FUNC deallocate_memory(void* p) { free(p); }
bool __TBB_EXPORTED_FUNC is_tbbmalloc_used() { return false; }
void __TBB_EXPORTED_FUNC call_itt_notify(int, void*) {}
void __TBB_EXPORTED_FUNC create_itt_sync(void*, const tchar*, const tchar*) {}
void __TBB_EXPORTED_FUNC itt_make_task_group(d1::itt_domain_enum, void*, unsigned long long, void*, unsigned long long, string_resource_index) {}
void __TBB_EXPORTED_FUNC itt_task_begin(d1::itt_domain_enum, void*, unsigned long long, void*, unsigned long long, string_resource_index) {}
void __TBB_EXPORTED_FUNC itt_task_end(d1::itt_domain_enum) {}
void __TBB_EXPORTED_FUNC itt_set_sync_name(void*, const tchar*) {}
void __TBB_EXPORTED_FUNC itt_metadata_str_add(d1::itt_domain_enum, void*, unsigned long long, string_resource_index, const char*) {}
void __TBB_EXPORTED_FUNC itt_metadata_ptr_add(d1::itt_domain_enum, void*, unsigned long long, string_resource_index, void*) {}
void __TBB_EXPORTED_FUNC itt_relation_add(d1::itt_domain_enum, void*, unsigned long long, itt_relation, void*, unsigned long long) {}
void __TBB_EXPORTED_FUNC itt_region_begin(d1::itt_domain_enum, void*, unsigned long long, void*, unsigned long long, string_resource_index) {}
void __TBB_EXPORTED_FUNC itt_region_end(d1::itt_domain_enum, void*, unsigned long long) {}
}}}
