// vtbb.h - harness-side interface of the abstract task scheduler (engine/vtbb.cpp)
#pragma once
namespace vtbb {
struct Stats { long steals, mails, executed, cancelled, outstanding_allocations, cache_allocs; };
void init(int workers, int reported_concurrency = 0);   // fresh scheduler with `workers` virtual workers
void finish();                                           // fails the execution if tasks were left behind or leaked
bool interleave();                                       // inside a body: optionally let another idle worker run one task now
bool nested();                                           // inside a body: optionally the CURRENT worker runs one task now (a nested wait inside the body re-enters the dispatcher: own pool, mail, steal, stream)
void enable_nested(bool on);                             // nested() is a no-op (and no choice point) when off; init() sets it from the leg parameter nested=0|1 (default 0)
int  run_others(int n);                                   // inside a body: other idle workers run up to n tasks now (setup for 'stalled body' variants); returns how many ran
void set_idle_hook(bool (*hook)());                        // called when a wait has no task left to run: a foreign thread's progress (async activity); returns true if it did something
int  current_worker();
Stats stats();
}
