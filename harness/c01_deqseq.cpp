// VF-BUILD: tbb whitebox
// C01 (a2) - every operation sequence on one real arena_slot, single thread: the owner spawns tasks carrying isolation tag 0 / 1 / 2
// and pops with isolation 0 / 1 / 2, and (acting as a thief, which is legal while the owner is outside the pool) steals with isolation
// 0 / 1.  A task skipped because of its tag leaves holes and "omitted" scans behind; nothing may be lost, handed out twice, or handed
// to a taker whose isolation does not match, and a taker gets nothing only if the pool holds nothing it may take.
// -p proxies=1 adds: p / q spawn a task with an affinity hint (a task_proxy in the pool, tag 0 / 1, also "mailed"), M the mailbox side claims
//    the oldest mailed proxy (whoever comes second finds the proxy empty and frees it - its memory is reused by the next proxy).
// -p depth=L : all sequences of length 1..L over {S a b G A B T U [p q M]}; -p pre=N : N untagged tasks spawned (and N/2 stolen) first,
//    so that the scans also run on a pool with an advanced head.
#include "governor.h"
#include "arena.h"
#include "arena_slot.h"
#include "thread_data.h"
#include "task_dispatcher.h"
#include "mailbox.h"
#include "small_object_pool_impl.h"
#include "vfh.h"
using namespace vfh; using namespace tbb::detail;
struct T : d1::task { int id; d1::task* execute(d1::execution_data&) override { return nullptr; } d1::task* cancel(d1::execution_data&) override { return nullptr; } };
static const char ALPHA[] = "SabGABTUpqM"; static int NA = 8;   // NA = 11 with -p proxies=1
static int DEPTH = 5, PRE = 0;
static void scenario(long c) {
    int len = 1; long block = NA; while (c >= block) { c -= block; block *= NA; len++; }
    char seq[16]; for (int i = 0; i < len; i++) { seq[i] = ALPHA[c % NA]; c /= NA; } seq[len] = 0;
    static r1::arena* the_arena = &r1::arena::allocate_arena(nullptr, 2, 1, 1);   // one arena for all cases: every case drains and frees the task pool of the slot
    r1::arena& a = *the_arena;
    r1::arena_slot& s = a.my_slots[0];
    static T tasks[64]; int next = 0; int tag[64]; int state[64];   // state: 0 not spawned, 1 in pool, 2 taken
    // get_task() re-advertises work after a scan that skipped tasks: ed.task_disp->m_thread_data->my_arena->advertise_new_work<wakeup>().
    // A minimal (zeroed) dispatcher / thread_data pair that points at this arena is enough; the arena is marked "workers already
    // requested" so that the advertisement does not reach the (absent) threading control.
    alignas(128) static char tdbuf[sizeof(r1::thread_data)], dbuf[sizeof(r1::task_dispatcher)];
    memset(tdbuf, 0, sizeof tdbuf); memset(dbuf, 0, sizeof dbuf);
    r1::thread_data* td = reinterpret_cast<r1::thread_data*>(tdbuf); r1::task_dispatcher* disp = reinterpret_cast<r1::task_dispatcher*>(dbuf);
    td->my_arena = &a; disp->m_thread_data = td; a.my_pool_state.test_and_set();
    static r1::small_object_pool_impl* sop = new (r1::cache_aligned_allocate(sizeof(r1::small_object_pool_impl))) r1::small_object_pool_impl{}; td->my_small_object_pool = sop;
    std::vector<r1::task_proxy*> mailed;   // the "mailbox" of the other slot: proxies in mailing order, claimed by op M
    r1::execution_data_ext ed{}; ed.task_disp = disp;
    auto spawn = [&](int tg) { tasks[next].id = next; r1::task_accessor::isolation(tasks[next]) = (r1::isolation_type)tg; tag[next] = tg; state[next] = 1; s.spawn(tasks[next]); next++; };
    auto spawn_proxy = [&](int tg) { tasks[next].id = next; r1::task_accessor::isolation(tasks[next]) = (r1::isolation_type)tg; tag[next] = tg; state[next] = 1;
        d1::small_object_allocator alloc{}; auto proxy = alloc.new_object<r1::task_proxy>(static_cast<d1::execution_data&>(ed)); r1::task_accessor::set_proxy_trait(*proxy); r1::task_accessor::isolation(*proxy) = (r1::isolation_type)tg;
        proxy->allocator = alloc; proxy->slot = 1; proxy->outbox = &a.mailbox(1); proxy->task_and_tag = intptr_t(&tasks[next]) | r1::task_proxy::location_mask; proxy->next_in_mailbox.store(nullptr, std::memory_order_relaxed);
        mailed.push_back(proxy); s.spawn(*proxy); next++; };
    auto eligible = [&](int iso) { for (int i = 0; i < next; i++) if (state[i] == 1 && (iso == 0 || tag[i] == iso)) return true; return false; };
    auto took = [&](d1::task* t, int iso, const char* who, int step) {
        if (!t) { if (eligible(iso)) vf_fail("%s with isolation %d got nothing at step %d of \"%s\" although the pool holds a task it may take", who, iso, step, seq); return; }
        int id = static_cast<T*>(t)->id; if (t != &tasks[id] || id < 0 || id >= next) vf_fail("%s got a pointer that is not a spawned task (\"%s\" step %d)", who, seq, step);
        if (state[id] != 1) vf_fail("task %d handed out twice (\"%s\" step %d, %s)", id, seq, step, who);
        if (iso != 0 && tag[id] != iso) vf_fail("%s with isolation %d got task %d tagged %d (\"%s\" step %d)", who, iso, id, tag[id], seq, step);
        state[id] = 2; };
    for (int i = 0; i < PRE; i++) spawn(0);
    for (int i = 0; i < PRE / 2; i++) took(s.steal_task(a, r1::no_isolation, 0), 0, "setup steal", -1);
    std::string out;
    for (int k = 0; k < len; k++) {
        char o = seq[k];
        if (o == 'S') spawn(0); else if (o == 'a') spawn(1); else if (o == 'b') spawn(2); else if (o == 'p') spawn_proxy(0); else if (o == 'q') spawn_proxy(1);
        else if (o == 'M') { if (mailed.empty()) { out += '~'; continue; } r1::task_proxy* tp = mailed.front(); mailed.erase(mailed.begin());   // what get_mailbox_task does with a popped proxy
            if (d1::task* t = tp->extract_task<r1::task_proxy::mailbox_bit>()) { took(t, 0, "mailbox", k); out += char('A' + static_cast<T*>(t)->id); } else { tp->allocator.delete_object(tp, static_cast<d1::execution_data&>(ed)); out += '^'; } }
        else if (o == 'G' || o == 'A' || o == 'B') { int iso = o == 'G' ? 0 : o == 'A' ? 1 : 2; d1::task* t = s.is_task_pool_published() ? s.get_task(ed, (r1::isolation_type)iso) : nullptr; took(t, iso, "get_task", k); out += t ? char('0' + static_cast<T*>(t)->id) : '-'; }
        else { int iso = o == 'T' ? 0 : 1; d1::task* t = s.is_task_pool_published() ? s.steal_task(a, (r1::isolation_type)iso, 0) : nullptr;
            if (t && r1::task_accessor::is_proxy_task(*t)) {   // what arena::steal_task does with a stolen proxy
                r1::task_proxy& tp = *static_cast<r1::task_proxy*>(t); t = tp.extract_task<r1::task_proxy::pool_bit>(); if (!t) { tp.allocator.delete_object(&tp, static_cast<d1::execution_data&>(ed)); out += '!'; continue; } }
            if (t || NA == 8) took(t, iso, "steal_task", k);   // with proxies a steal may legitimately skip a mailed proxy (mailbox heuristics), so an empty-handed steal is not judged
            out += t ? char('a' + static_cast<T*>(t)->id) : '.'; }
    }
    while (s.is_task_pool_published()) { d1::task* t = s.get_task(ed, r1::no_isolation); if (!t) break; took(t, 0, "drain", len); }
    for (r1::task_proxy* tp : mailed) { if (d1::task* t = tp->extract_task<r1::task_proxy::mailbox_bit>()) took(t, 0, "mailbox drain", len); else tp->allocator.delete_object(tp, static_cast<d1::execution_data&>(ed)); }
    for (int i = 0; i < next; i++) if (state[i] == 1) vf_fail("task %d (tag %d) was lost: the pool is drained but it was never handed out (sequence \"%s\")", i, tag[i], seq);
    if (s.is_task_pool_published() && !s.is_empty()) vf_fail("pool not empty after the drain (\"%s\")", seq);
    a.my_slots[0].free_task_pool();
    vf_outcome("%s %s", seq, out.c_str());
}
int main(int argc, char** argv) {
    for (int i = 1; i + 1 < argc; i++) if (!strcmp(argv[i], "-p")) { if (!strncmp(argv[i + 1], "depth=", 6)) DEPTH = atoi(argv[i + 1] + 6); if (!strncmp(argv[i + 1], "pre=", 4)) PRE = atoi(argv[i + 1] + 4); if (!strcmp(argv[i + 1], "proxies=1")) NA = 11; }
    long n = 0, b = NA; for (int l = 1; l <= DEPTH; l++) { n += b; b *= NA; }
    return vf_main_cases(argc, argv, n, scenario);
}
