// VF-BUILD: malloc
// C17 (threads) - blocks may be freed by another thread than the one that allocated them; freed memory is handed out again
// only after the free; thread exit with live blocks (orphaned slabs) and adoption; the allocator never writes into a live block.
// -p kind=foreign   owner mallocs while another thread frees the owner's blocks and allocates itself
//         exit      the owner ends (thread shutdown notification) with live blocks while another thread frees / allocates
//         last      foreign free of the last object of a slab vs owner malloc of that size class
//         large     large-object cache: foreign free + malloc of the same size
//         clean     the owner runs the cache clean-up commands (TBBMALLOC_CLEAN_THREAD_BUFFERS, TBBMALLOC_CLEAN_ALL_BUFFERS) while another thread frees its blocks
// -p size=48
#include <oneapi/tbb/scalable_allocator.h>
#include "vfh.h"
#include "vfmalloc.h"
using namespace vfh;
namespace rml { namespace internal { class TLSData; } } void doThreadShutdownNotification(rml::internal::TLSData*, bool);   // what the pthread key destructor runs at thread exit
static void scenario() {
    const char* k = vf_param("kind", "foreign"); size_t sz = (size_t)vf_param_int("size", 48); ShadowHeap h; std::vector<void*> owned, got[3]; int ready = 0; static int go;
    int nown = streq(k, "last") ? 1 : 3;
    // -p align=A : the owner's blocks come from scalable_aligned_malloc(size, A) (the user address may lie inside an allocator slot);
    // -p after=S : size of the allocations made inside the window (default: size), e.g. the full slot size of that bin
    size_t align = (size_t)vf_param_int("align", 0), asz = (size_t)vf_param_int("after", (long)sz); nown = (int)vf_param_int("nown", nown);
    // thread 1 (owner) allocates before the window, in its own TLS
    auto al = [&](int t) { void* p = scalable_malloc(asz); if (!p) vf_fail("scalable_malloc failed"); h.add(p, asz, asz <= 8 ? 8 : 16, "scalable_malloc"); if (scalable_msize(p) < asz) vf_fail("scalable_msize %zu is smaller than the %zu bytes requested", scalable_msize(p), asz); got[t].push_back(p); return p; };
    auto fr = [&](void* p) { h.take(p, "scalable_free"); scalable_free(p); };
    vf_liveness(1);
    auto ids = gated(2, [&](int i) { if (i == 0) { for (int j = 0; j < nown; j++) { void* p = align ? scalable_aligned_malloc(sz, align) : scalable_malloc(sz); if (!p) vf_fail("setup allocation failed"); h.add(p, sz, align ? align : sz <= 8 ? 8 : 16, "setup"); if (scalable_msize(p) < sz) vf_fail("msize too small"); owned.push_back(p);
                if (align) { void* q = scalable_malloc(asz); h.add(q, asz, 16, "setup (plain neighbour)"); } } } else { void* w = scalable_malloc(sz); scalable_free(w); } },
        [&](int i) {
            if (i == 0) { // owner
                if (streq(k, "exit")) { al(0); doThreadShutdownNotification(nullptr, false); }
                else if (streq(k, "clean")) { scalable_allocation_command(TBBMALLOC_CLEAN_THREAD_BUFFERS, nullptr); al(0); scalable_allocation_command(TBBMALLOC_CLEAN_ALL_BUFFERS, nullptr); al(0); }
                else { al(0); al(0); if (align) { al(0); al(0); } }
            } else {      // foreign thread frees the owner's blocks and allocates
                if (streq(k, "clean")) { for (int j = 0; j < nown; j++) fr(owned[j]); al(1); }
                else { fr(owned[0]); al(1); if (nown > 1) fr(owned[1]); al(1); if (align) for (int j = 2; j < nown; j++) fr(owned[j]); }
            } });
    open_window_and_join(ids);
    /* liveness stays on: the sequential phase that follows must terminate too */
    h.check_all("after the window");
    // everything that is still live can be freed by the main thread (a third thread) and reused
    std::vector<unsigned char*> rest; for (auto& kv : h.live) rest.push_back(kv.first); for (auto p : rest) fr(p);
    for (int i = 0; i < 4; i++) { void* p = scalable_malloc(sz); h.add(p, sz, 0, "after"); } h.check_all("end");
    vf_outcome("a=%zu b=%zu", got[0].size(), got[1].size()); for (int t = 0; t < 2; t++) for (void* p : got[t]) { int reused = 0; for (void* o : owned) if (o == p) reused = 1; vf_outcome("%d", reused); }
}
int main(int argc, char** argv) { return vf_main(argc, argv, scenario); }
