// vfmalloc.h - shadow heap shared by the tbbmalloc harnesses (DESIGN section 6.6)
#pragma once
#include "vf.h"
#include <map>
#include <cstring>
#include <cstdint>
struct ShadowHeap {
    struct Blk { size_t n; unsigned char pat; };
    std::map<unsigned char*, Blk> live; unsigned next = 1;
    static void fill(unsigned char* p, size_t n, unsigned char pat) { if (n <= (1u << 22)) memset(p, pat, n); else { memset(p, pat, 4096); memset(p + n - 4096, pat, 4096); for (size_t o = 4096; o + 4096 < n; o += (1u << 20)) p[o] = pat; } }
    // checks the bytes that fill() wrote for a block of n bytes, restricted to offsets below upto
    static bool intact(const unsigned char* p, size_t n, unsigned char pat, size_t upto = ~(size_t)0) {
        auto range = [&](size_t a, size_t b) { if (b > upto) b = upto; for (size_t i = a; i < b; i++) if (p[i] != pat) return false; return true; };
        if (n <= (1u << 22)) return range(0, n);
        if (!range(0, 4096) || !range(n - 4096, n)) return false; for (size_t o = 4096; o + 4096 < n; o += (1u << 20)) if (o < upto && p[o] != pat) return false; return true; }
    // a new block [p,p+n): no overlap with live blocks; gets a fresh pattern
    void add(void* q, size_t n, size_t align, const char* what) { unsigned char* p = (unsigned char*)q; if (!p) return; if (n == 0) n = 1;
        if (align && ((uintptr_t)p & (align - 1))) vf_fail("%s: block %p is not aligned to %zu", what, q, align);
        auto it = live.upper_bound(p); if (it != live.end() && it->first < p + n) vf_fail("%s: new block [%p,+%zu) overlaps live block %p", what, q, n, (void*)it->first);
        if (it != live.begin()) { --it; if (it->first + it->second.n > p) vf_fail("%s: new block [%p,+%zu) overlaps live block [%p,+%zu)", what, q, n, (void*)it->first, it->second.n); }
        unsigned char pat = (unsigned char)(0x11 + (next++ % 200)); fill(p, n, pat); live[p] = Blk{n, pat}; }
    void check_all(const char* what) { for (auto& kv : live) if (!intact(kv.first, kv.second.n, kv.second.pat)) vf_fail("%s: contents of live block [%p,+%zu) were modified", what, (void*)kv.first, kv.second.n); }
    // block is about to be freed / reallocated
    Blk take(void* q, const char* what) { auto it = live.find((unsigned char*)q); if (it == live.end()) vf_fail("%s: harness error, unknown block", what); Blk b = it->second; if (!intact(it->first, b.n, b.pat)) vf_fail("%s: contents of live block [%p,+%zu) were modified", what, q, b.n); live.erase(it); return b; }
};
