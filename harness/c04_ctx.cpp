// VF-BUILD: tbb whitebox
// C04 - cancellation reaches every context bound beneath the cancelled one (also contexts being bound concurrently) and
// nothing else; exactly one of concurrent cancel calls wins; stays cancelled until reset.
// Real thread_data / context lists / bind_to / cancel_group_execution; external threads emulate "executing a task of context X"
// by setting their dispatcher's current context.  Tree: R (isolated root) -> P (bound in setup); controls: S (isolated root),
// I (isolated kind, created under P), Q (bound under S).
// -p kind=grand        cancel(R) || bind C under P                      (grand-ancestor path: epoch snapshot, speculative copy)
//         direct       cancel(R) || bind D under R                      (direct-child path)
//         both         cancel(R) || bind C under P || bind D under R
//         two_cancel   cancel(R) || cancel(R) || bind C under P
//         mid          cancel(P) || bind C under P || bind D under R    (D and R must stay clean)
//         mid_reset    same after P.reset() (P keeps its children from an earlier round)
//         destroy      cancel(R) || bind C under P || destroy sibling X (bound under P in setup)
//         deep         cancel(R) || bind C under P || bind E under C    (E binds after C; chain of fresh contexts)
#include "governor.h"
#include "arena.h"
#include "thread_data.h"
#include "task_dispatcher.h"
#include <oneapi/tbb/task_group.h>
#include "vfh.h"
using namespace vfh; using namespace tbb::detail;
typedef d1::task_group_context ctx_t;
static r1::thread_data* as(ctx_t* cur) { r1::thread_data* td = r1::governor::get_thread_data(); if (cur) td->my_task_dispatcher->m_execute_data_ext.context = cur; return td; }
static void restore(r1::thread_data* td) { td->my_task_dispatcher->m_execute_data_ext.context = td->my_arena->my_default_ctx; }
static void bind_under(ctx_t& child, ctx_t& parent) { r1::thread_data* td = as(&parent); r1::task_group_context_impl::bind_to(child, td); restore(td); }
static void scenario() {
    const char* k = vf_param("kind", "grand");
    r1::thread_data* td = r1::governor::get_thread_data();
    ctx_t R(ctx_t::isolated), P, C, D, E, S(ctx_t::isolated), I(ctx_t::isolated), Q; ctx_t* X = new ctx_t;
    r1::task_group_context_impl::bind_to(R, td); r1::task_group_context_impl::bind_to(S, td);
    bind_under(P, R); bind_under(I, P); bind_under(Q, S); bind_under(*X, P);
    bool res1 = false, res2 = false; std::vector<std::function<void()>> init, body; bool c_done = false;
    auto canceller = [&](ctx_t& target, bool& res) { init.push_back([&] { r1::thread_data* t = as(nullptr); restore(t); }); body.push_back([&] { res = target.cancel_group_execution(); }); };
    auto binder = [&](ctx_t& child, ctx_t& parent) { init.push_back([&] { as(&parent); }); body.push_back([&] { r1::thread_data* t = r1::governor::get_thread_data(); r1::task_group_context_impl::bind_to(child, t); restore(t); }); };
    bool expC = true, expD = false, expE = false, expP = true, expR = true, useD = false, useE = false;
    if (streq(k, "grand")) { canceller(R, res1); binder(C, P); }
    else if (streq(k, "direct")) { canceller(R, res1); binder(D, R); useD = expD = true; expC = false; }
    else if (streq(k, "both")) { canceller(R, res1); binder(C, P); binder(D, R); useD = expD = true; }
    else if (streq(k, "two_cancel")) { canceller(R, res1); canceller(R, res2); binder(C, P); }
    else if (streq(k, "leaf_cancel")) { // two (three) cancellers of a LEAF context (bound, no children): Q beneath S; and a binder of a first child beneath the leaf
        canceller(Q, res1); canceller(Q, res2); binder(C, Q); expR = expP = false; expC = true; }
    else if (streq(k, "fresh_cancel")) { // two cancellers of a context that has never been bound (state created)
        canceller(E, res1); canceller(E, res2); binder(C, P); expR = expP = expC = false; }
    else if (streq(k, "reset_below")) { // I is bound beneath P; cancel(R) marks P and I; I is reset while its ancestors stay cancelled; then an UNRELATED tree is cancelled (S, which has a
        // bound child Q) while C is bound beneath P: the second request must mark nothing outside S's subtree - in particular not I again
        ctx_t* J = new ctx_t; bind_under(*J, P);
        if (!R.cancel_group_execution()) vf_fail("cancel(R) returned false"); if (!J->is_group_execution_cancelled()) vf_fail("descendant J of R not cancelled"); J->reset(); if (J->is_group_execution_cancelled()) vf_fail("reset did not clear J");
        canceller(S, res1); binder(C, P); expC = true; expP = expR = true; X = (delete X, J); }
    else if (streq(k, "mid")) { canceller(P, res1); binder(C, P); binder(D, R); useD = true; expD = false; expR = false; }
    else if (streq(k, "mid_reset")) { // P (which has the bound children X and I) was reset before - e.g. by the wait of an earlier round - and is used again with the same children: cancel(P) must still reach them
        P.reset(); canceller(P, res1); binder(C, P); binder(D, R); useD = true; expD = false; expR = false; }
    else if (streq(k, "destroy")) { canceller(R, res1); binder(C, P); init.push_back([&] { r1::thread_data* t = as(nullptr); restore(t); }); body.push_back([&] { delete X; X = nullptr; }); }
    else if (streq(k, "deep")) { canceller(R, res1); binder(C, P);
        init.push_back([&] { r1::thread_data* t = as(nullptr); restore(t); }); body.push_back([&] { while (C.my_state.load(std::memory_order_acquire) != ctx_t::state::bound) vf_yield(); bind_under(E, C); }); useE = expE = true; }
    else if (streq(k, "prebind")) { // C is cancelled by its owner before it is ever bound, then bound beneath a clean parent while an unrelated cancel(S) propagates
        if (!C.cancel_group_execution()) vf_fail("cancel of a fresh context returned false"); canceller(S, res1); binder(C, P); expR = expP = false; expC = true; }
    else vf_fail("unknown kind");
    bool bindC = !streq(k, "direct");
    vf_liveness(1);
    auto ids = gated((int)body.size(), [&](int i) { init[i](); }, [&](int i) { body[i](); });
    open_window_and_join(ids);
    vf_liveness(0);
    // all cancel calls and bindings have completed
    auto chk = [&](ctx_t& c, bool expect, const char* name) { bool is = c.is_group_execution_cancelled(); if (is != expect) vf_fail("%s is %scancelled after all cancel calls and bindings completed (expected %s)", name, is ? "" : "not ", expect ? "cancelled" : "clean"); };
    chk(R, expR, "R (root)"); chk(P, expP, "P (bound child)"); if (bindC) chk(C, expC, "C (bound beneath P concurrently)"); if (useD) chk(D, expD, "D (bound beneath R concurrently)"); if (useE) chk(E, expE, "E (bound beneath C concurrently)");
    if (X && !streq(k, "reset_below") && !streq(k, "destroy")) chk(*X, expP, "X (bound beneath P before the window, i.e. a child from an earlier use of P)");
    if (streq(k, "reset_below")) { if (X->is_group_execution_cancelled()) vf_fail("J (child of P, reset after the cancellation of R) was marked again by the cancellation of the unrelated context S"); }
    bool sCancelled = streq(k, "prebind") || streq(k, "reset_below"); chk(S, sCancelled, "S (unrelated root)"); chk(Q, sCancelled || streq(k, "leaf_cancel"), "Q (child of S)");
    if (streq(k, "fresh_cancel")) { if (!E.is_group_execution_cancelled()) vf_fail("the fresh context is not cancelled after two cancel calls"); } chk(I, false, "I (isolated context created under P)");
    if (streq(k, "two_cancel") || streq(k, "leaf_cancel") || streq(k, "fresh_cancel")) { if (res1 == res2) vf_fail("concurrent cancel calls on one context returned %d and %d", res1, res2); } else if (!res1) vf_fail("the only cancel call returned false");
    // stays cancelled until reset; reset clears only that context
    if (streq(k, "reset_below")) { vf_outcome("r=%d", res1); delete X; return; }
    ctx_t& tgt = streq(k, "mid") || streq(k, "mid_reset") ? P : streq(k, "prebind") ? S : streq(k, "leaf_cancel") ? Q : streq(k, "fresh_cancel") ? E : R; if (tgt.cancel_group_execution()) vf_fail("a second cancel of a cancelled context returned true");
    tgt.reset(); if (tgt.is_group_execution_cancelled()) vf_fail("reset did not clear the context");
    vf_outcome("r=%d%d", res1, res2);
    if (X) delete X;
}
int main(int argc, char** argv) { return vf_main(argc, argv, scenario); }
