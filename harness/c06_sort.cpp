// VF-BUILD: vtbb
// C06 (parallel_sort) on the abstract scheduler: the result is a sorted permutation of the input for every input and every
// strict weak ordering.  Inputs: for every n in 500..520 (the parallel path starts at 500; the pre-test probes 9 elements and
// scans chunks) and 617, 811, 1200: sorted, sorted with ONE inversion at every position i, reverse, all equal, two-valued,
// saw-tooth; plus all permutations of up to 6 keys and all 3-valued sequences of length up to 6 (serial path).
#include <oneapi/tbb/parallel_sort.h>
#include "vtbb.h"
#include "vfh.h"
#include <numeric>
struct El { int key, id; };
static long ncmp;
struct Less { bool operator()(const El& a, const El& b) const { ncmp++; return a.key / 2 < b.key / 2; } };   // keys 2k and 2k+1 are equivalent
static void run(std::vector<El>& v, int P, const char* what) {
    std::vector<int> ids; for (auto& e : v) ids.push_back(e.id); std::vector<El> in = v; vtbb::init(P); ncmp = 0;
    tbb::parallel_sort(v.begin(), v.end(), Less()); vtbb::finish();
    for (size_t i = 1; i < v.size(); i++) if (v[i].key / 2 < v[i - 1].key / 2) vf_fail("parallel_sort(%s, n=%zu): result not sorted at position %zu (%d before %d)", what, v.size(), i, v[i - 1].key, v[i].key);
    std::vector<std::pair<int, int>> a, b; for (auto& e : in) a.push_back({e.key, e.id}); for (auto& e : v) b.push_back({e.key, e.id}); std::sort(a.begin(), a.end()); std::sort(b.begin(), b.end()); if (a != b) vf_fail("parallel_sort(%s, n=%zu): result is not a permutation of the input", what, v.size());
    vf_outcome("sort %s n=%zu P=%d steals=%ld cmp=%ld", what, v.size(), P, vtbb::stats().steals, ncmp);
}
// every overload of parallel_sort: (begin,end), (begin,end,comp), (container), (container,comp)
struct Lt { int key, id; bool operator<(const Lt& o) const { return key < o.key; } };
static void c_ovl(long c) { int P = 1 + (int)(c % 2); c /= 2; int ov = (int)(c % 4); c /= 4; static const int NS[] = {0, 1, 2, 7, 499, 500, 650}; int n = NS[c % 7];
    std::vector<Lt> v(n); for (int i = 0; i < n; i++) v[i] = {(int)(((long)i * 37 + 11) % (n ? n : 1)), i}; std::vector<Lt> in = v; vtbb::init(P);
    auto desc = [](const Lt& a, const Lt& b) { return a.key > b.key; };
    if (ov == 0) tbb::parallel_sort(v.begin(), v.end()); else if (ov == 1) tbb::parallel_sort(v.begin(), v.end(), desc); else if (ov == 2) tbb::parallel_sort(v); else tbb::parallel_sort(v, desc);
    vtbb::finish(); bool d = ov & 1; for (size_t i = 1; i < v.size(); i++) if (d ? v[i - 1].key < v[i].key : v[i].key < v[i - 1].key) vf_fail("parallel_sort overload %d, n=%d: result not sorted at position %zu", ov, n, i);
    std::vector<int> a, b; for (auto& e : in) a.push_back(e.id); for (auto& e : v) b.push_back(e.id); std::sort(a.begin(), a.end()); std::sort(b.begin(), b.end()); if (a != b) vf_fail("parallel_sort overload %d, n=%d: result is not a permutation of the input", ov, n);
    vf_outcome("sort-ovl %d n=%d P=%d", ov, n, P); }
static const int SIZES[] = {500, 501, 502, 503, 504, 505, 506, 507, 508, 509, 510, 511, 512, 513, 514, 515, 516, 517, 518, 519, 520, 617, 811, 1200};
static long NINV, NSHAPE, NPERM, NTERN; static const int NSH = 21;
static std::vector<El> sorted_input(int n) { std::vector<El> v(n); for (int i = 0; i < n; i++) v[i] = {2 * i, i}; return v; }
static void scenario(long c) {
    if (c < NINV) { int P = 1 + (int)(c % 2); c /= 2; int si = 0; long off = c; while (off >= SIZES[si] - 1) { off -= SIZES[si] - 1; si++; } int n = SIZES[si]; std::vector<El> v = sorted_input(n); std::swap(v[off], v[off + 1]); char w[64]; snprintf(w, 64, "one inversion at %ld", off); run(v, P, w); return; }
    c -= NINV;
    if (c < NSHAPE) { int P = 1 + (int)(c % 3); c /= 3; int shape = (int)(c % NSH); c /= NSH; int n = SIZES[c]; std::vector<El> v = sorted_input(n); const char* nm[NSH] = {"sorted", "reverse", "all equal", "two values", "saw-tooth", "sorted with equal neighbours", "organ pipe", "maxima at the nine pivot probes", "minima at the nine pivot probes", "one big key first", "one small key last",
            "stride 7", "stride 11 mod n-1", "stride 13 few values", "stride 17 mod n-3", "stride 19 pairs", "stride 23 mod 5", "stride 29", "stride 31 mod n/2", "stride 37 mod 3", "stride 41"};
        if (shape == 1) std::reverse(v.begin(), v.end()); else if (shape == 2) for (auto& e : v) e.key = 8; else if (shape == 3) for (auto& e : v) e.key = (e.id * 7 % 3 == 0) ? 10 : 20; else if (shape == 4) for (auto& e : v) e.key = 2 * (e.id % 13); else if (shape == 5) for (auto& e : v) e.key = e.id;
        else if (shape == 6) for (auto& e : v) e.key = 2 * std::min(e.id, n - 1 - e.id);
        else if (shape == 7 || shape == 8) { for (int q = 0; q <= 8; q++) { int pos = std::min(n - 1, q * (n / 8)); v[pos].key = shape == 7 ? 4 * n + 2 * q : -2 * q - 2; } }
        else if (shape == 9) v[0].key = 4 * n; else if (shape == 10) v[n - 1].key = -4;
        else { static const int st[10] = {7, 11, 13, 17, 19, 23, 29, 31, 37, 41}; int a = st[shape - 11]; int m = shape == 12 ? n - 1 : shape == 13 ? 9 : shape == 14 ? n - 3 : shape == 15 ? n / 2 + 1 : shape == 16 ? 5 : shape == 18 ? n / 2 : shape == 19 ? 3 : n;
            for (auto& e : v) e.key = (shape == 15 ? 1 : 2) * (int)(((long)e.id * a + shape) % m); }
        run(v, P, nm[shape]); return; }
    c -= NSHAPE;
    if (c < NPERM) { int n = 0; long f = 1, base = 0; for (n = 1; n <= 6; n++) { f *= n; if (c < base + f) break; base += f; } long idx = c - base; std::vector<int> p(n); std::iota(p.begin(), p.end(), 0); for (long i = 0; i < idx; i++) std::next_permutation(p.begin(), p.end()); std::vector<El> v; for (int i = 0; i < n; i++) v.push_back({2 * p[i], i}); run(v, 2, "permutation"); return; }
    c -= NPERM;
    if (c >= NTERN) { c_ovl(c - NTERN); return; }
    { int n = 1; long base = 0, pw = 3; while (c >= base + pw) { base += pw; pw *= 3; n++; } long idx = c - base; std::vector<El> v; for (int i = 0; i < n; i++) { v.push_back({2 * (int)(idx % 3), i}); idx /= 3; } run(v, 2, "three-valued"); }
}
int main(int argc, char** argv) {
    long inv = 0; for (int s : SIZES) inv += s - 1; NINV = 2 * inv; NSHAPE = 3L * NSH * (sizeof(SIZES) / sizeof(int)); NPERM = 1 + 2 + 6 + 24 + 120 + 720; NTERN = 3 + 9 + 27 + 81 + 243 + 729;
    return vf_main_cases(argc, argv, NINV + NSHAPE + NPERM + NTERN + 2L * 4 * 7, scenario);
}
