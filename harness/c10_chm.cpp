// VF-BUILD: tbb
// C10 - concurrent_hash_map: linearizable map + per-element reader/writer locks (accessors).
// -p hash=id|const|low2   -p pre=N (keys 1000..1000+N-1 inserted first)  -p prekeys="3,259"
// -p prog="I3|I3|F3"  ops: I<k> insert(value)  J<k> insert(accessor,k) then hold  F<k> find(const_accessor)  C<k> count
//        E<k> erase(k)   A<k> find(accessor) and hold (write)   R<k> find(const_accessor) and hold   X<k> find(accessor) then erase(accessor)
//        M<k> emplace
#include <oneapi/tbb/concurrent_hash_map.h>
#include "vfh.h"
#include <map>
using namespace vfh;
static int g_hash = 0;
struct HC { static size_t hash(int k) { return g_hash == 0 ? (size_t)k : g_hash == 1 ? 7 : (size_t)(k & 3); } static bool equal(int a, int b) { return a == b; } };
struct Val { int v; int canary; Val(int x = 0) : v(x), canary(0xC0FFEE) {} Val(const Val& o) : v(o.v), canary(0xC0FFEE) { vf_plain_read(&o.v); vf_plain_write(&v); } ~Val() { vf_plain_write(&v); canary = 0xDEAD; } };   // contents announced to the happens-before oracle (-hb)
typedef tbb::concurrent_hash_map<int, Val, HC> Map;
enum { K_INS, K_FIND, K_COUNT, K_ERASE, K_ERASEACC };
static const char* const NAMES[] = {"insert", "find", "count", "erase", "erase(accessor to the element with value)"};
struct MModel { std::map<long, long> m;
    bool apply(const Op& o, bool chk) { long k = o.arg >> 16, v = o.arg & 0xffff;
        switch (o.kind) {
        case K_INS: { bool fresh = !m.count(k); if (chk && (o.res != 0) != fresh) return false; if (fresh) m[k] = v; return true; }
        case K_FIND: if (!chk) return true; if (o.res < 0) return !m.count(k); return m.count(k) && m[k] == o.res;
        case K_COUNT: if (!chk) return true; return (long)m.count(k) == o.res;
        case K_ERASE: { bool had = m.count(k); if (chk && (o.res != 0) != had) return false; m.erase(k); return true; }
        /* erase(accessor) removes THE ELEMENT the accessor points to (identified by the value it was inserted with, v): true iff that element is still in the
           table; false if another thread's erase(key) unlinked it in the meantime - even if a new element with the same key has been inserted since */
        case K_ERASEACC: { bool same = m.count(k) && m[k] == v; if (chk && (o.res != 0) != same) return false; if (same) m.erase(k); return true; } }
        return false; } };
// Holder bookkeeping per ELEMENT (its address), not per key: erase(key) unlinks an element that another thread still holds an
// accessor to and a later insert of the same key creates a different element - the property speaks about accessors to one element.
static std::map<const void*, std::pair<int, int>> holders;   // plain: only touched between scheduling points
static void hold_w(int k, Val& v) { auto& h = holders[&v]; if (++h.first != 1 || h.second) vf_fail("accessor to the element of key %d not exclusive (writers=%d readers=%d)", k, h.first, h.second); vf_plain_write(&v.v); vf_point(); if (v.canary != 0xC0FFEE) vf_fail("element of key %d destroyed while an accessor points to it", k); --holders[&v].first; }
static void hold_r(int k, const Val& v) { auto& h = holders[&v]; ++h.second; if (h.first) vf_fail("const_accessor to the element of key %d while an accessor is held", k); vf_plain_read(&v.v); vf_point(); if (v.canary != 0xC0FFEE) vf_fail("element of key %d destroyed while a const_accessor points to it", k); --holders[&v].second; }
static void scenario() {
    const char* h = vf_param("hash", "id"); g_hash = streq(h, "id") ? 0 : streq(h, "const") ? 1 : 2;
    Map map; MModel m; Log log; holders.clear();
    long pre = vf_param_int("pre", 0); for (long i = 0; i < pre; i++) { map.insert(std::make_pair((int)(1000 + i), Val(1))); m.m[1000 + i] = 1; }
    for (const char* p = vf_param("prekeys", ""); *p;) { long k = strtol(p, (char**)&p, 10); map.insert(std::make_pair((int)k, Val(2))); m.m[k] = 2; while (*p == ',') p++; }
    std::vector<std::string> progs(1); for (const char* p = vf_param("prog", "I3|I3|F3"); *p; p++) { if (*p == '|') progs.emplace_back(); else progs.back() += *p; }
    vf_liveness(1);
    auto ids = gated((int)progs.size(), nullptr, [&](int t) {
        for (const char* p = progs[t].c_str(); *p;) { if (*p == ',') { p++; continue; } char c = *p++; int k = (int)strtol(p, (char**)&p, 10); int myv = 10 + t; long arg = ((long)k << 16) | myv; int id; long r = 0;
            switch (c) {
            case 'I': id = log.begin(K_INS, arg); r = map.insert(std::make_pair(k, Val(myv))); log.end(id, r); break;
            case 'M': id = log.begin(K_INS, arg); r = map.emplace(k, myv); log.end(id, r); break;
            case 'J': { id = log.begin(K_INS, arg); Map::accessor a; r = map.insert(a, std::make_pair(k, Val(myv))); log.end(id, r); hold_w(k, a->second); } break;
            case 'F': { id = log.begin(K_FIND, arg); Map::const_accessor a; bool f0 = map.find(a, k); if (f0) vf_plain_read(&a->second.v); r = f0 ? a->second.v : -1; a.release(); log.end(id, r); } break;
            case 'C': id = log.begin(K_COUNT, arg); r = (long)map.count(k); log.end(id, r); break;
            case 'E': id = log.begin(K_ERASE, arg); r = map.erase(k); log.end(id, r); break;
            case 'A': { id = log.begin(K_FIND, arg); Map::accessor a; bool f = map.find(a, k); r = f ? a->second.v : -1; log.end(id, r); if (f) hold_w(k, a->second); } break;
            case 'R': { id = log.begin(K_FIND, arg); Map::const_accessor a; bool f = map.find(a, k); r = f ? a->second.v : -1; log.end(id, r); if (f) hold_r(k, a->second); } break;
            case 'X': { Map::accessor a; int idf = log.begin(K_FIND, arg); bool f = map.find(a, k); log.end(idf, f ? a->second.v : -1); if (f) { long fv = a->second.v; hold_w(k, a->second); id = log.begin(K_ERASEACC, ((long)k << 16) | (fv & 0xffff)); r = map.erase(a); log.end(id, r); } } break;
            default: vf_fail("bad op"); } } });
    open_window_and_join(ids);
    /* liveness stays on: the sequential phase that follows must terminate too */
    // final contents, read sequentially, are part of the history
    std::map<long, long> fin; for (auto it = map.begin(); it != map.end(); ++it) { if (fin.count(it->first)) vf_fail("key %d twice in the final table", it->first); fin[it->first] = it->second.v; }
    if (fin.size() != map.size()) vf_fail("size() %zu != number of elements %zu", map.size(), fin.size());
    std::vector<long> keys; for (auto& o : log.ops) keys.push_back(o.arg >> 16); std::sort(keys.begin(), keys.end()); keys.erase(std::unique(keys.begin(), keys.end()), keys.end());
    for (long k : keys) { int id = log.begin(K_FIND, k << 16); Map::const_accessor a; long r = map.find(a, (int)k) ? a->second.v : -1; log.end(id, r); if ((r >= 0) != (fin.count(k) > 0)) vf_fail("find(%ld) disagrees with iteration", k); }
    for (auto& kv : m.m) if (kv.first >= 1000 && !fin.count(kv.first)) vf_fail("pre-existing key %ld lost", kv.first);
    if (!linearizable(log.ops, m)) vf_fail("history is not linearizable to a map: %s", log.str(NAMES).c_str());
    for (auto& o : log.ops) vf_outcome("%c%ld ", "ifce"[o.kind], o.res);
}
int main(int argc, char** argv) { return vf_main(argc, argv, scenario); }
