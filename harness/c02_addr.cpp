// VF-BUILD: tbb
// C02 (address waiters) - sleepers of *different* mutexes can share one wait set: the table of address waiters has 2048 hashed
// buckets.  Two tbb::mutex / tbb::rw_mutex objects whose addresses fall into the same bucket; a thread sleeps on each; unlocking one
// mutex must wake its own sleeper no matter where it stands in the shared wait set (the wake-up selects by address / context).
// -p kind=mutex|rw  -p order=ba|ab (which sleeper queued first)  -p unlock=ab|ba (which mutex main releases first)
#include <oneapi/tbb/mutex.h>
#include <oneapi/tbb/rw_mutex.h>
#include "vfh.h"
using namespace vfh;
static size_t bucket(const void* p) { std::uintptr_t tag = (std::uintptr_t)p; return ((tag >> 5) ^ tag) % 2048; }     // src/tbb/address_waiter.cpp
template <class M> static void pick(M* pool, int n, int& a, int& b) { for (int i = 0; i < n; i++) for (int j = i + 1; j < n; j++) if (bucket(&pool[i]) == bucket(&pool[j])) { a = i; b = j; return; } vf_fail("no two objects share an address-waiter bucket"); }
static int got[2], asleep_target;
static void scenario() {
    const char* k = vf_param("kind", "mutex"); const char* order = vf_param("order", "ba"); const char* unl = vf_param("unlock", "ab"); int reader = (int)vf_param_int("reader", 0);
    vf_liveness(1);
    if (streq(k, "mutex")) { static tbb::mutex pool[4200]; int ia = 0, ib = 0; pick(pool, 4200, ia, ib); tbb::mutex& A = pool[ia]; tbb::mutex& B = pool[ib];
        A.lock(); B.lock();
        auto sleeper = [&](int which) { return spawn([&, which] { (which ? B : A).lock(); got[which] = 1; (which ? B : A).unlock(); }); };
        int first = order[0] == 'b' ? 1 : 0; int t1 = sleeper(first); settle(); int t2 = sleeper(1 - first); settle();     // both are asleep in the shared wait set, in this order
        vf_window(1);
        for (int s = 0; s < 2; s++) { int which = unl[s] == 'b' ? 1 : 0; (which ? B : A).unlock(); for (int i = 0; i < 3000 && !got[which]; i++) vf_yield(); if (!got[which]) vf_fail("tbb::mutex %c was unlocked but the thread sleeping on it was never woken (another mutex's sleeper shares its wait set)", which ? 'B' : 'A'); }
        vf_join(t1); vf_join(t2); vf_window(0); }
    else { static tbb::rw_mutex pool[4200]; int ia = 0, ib = 0; pick(pool, 4200, ia, ib); tbb::rw_mutex& A = pool[ia]; tbb::rw_mutex& B = pool[ib];
        A.lock(); B.lock();
        auto sleeper = [&](int which) { return spawn([&, which] { tbb::rw_mutex& m = which ? B : A; if (reader && which == 0) { m.lock_shared(); got[which] = 1; m.unlock_shared(); } else { m.lock(); got[which] = 1; m.unlock(); } }); };
        int first = order[0] == 'b' ? 1 : 0; int t1 = sleeper(first); settle(); int t2 = sleeper(1 - first); settle();
        vf_window(1);
        for (int s = 0; s < 2; s++) { int which = unl[s] == 'b' ? 1 : 0; (which ? B : A).unlock(); for (int i = 0; i < 3000 && !got[which]; i++) vf_yield(); if (!got[which]) vf_fail("tbb::rw_mutex %c was unlocked but the thread sleeping on it was never woken (another mutex's sleeper shares its wait set)", which ? 'B' : 'A'); }
        vf_join(t1); vf_join(t2); vf_window(0); }
    vf_liveness(0); vf_outcome("ok");
}
int main(int argc, char** argv) { return vf_main(argc, argv, scenario); }
