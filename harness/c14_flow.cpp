// VF-BUILD: vtbb
// C14 - flow graph: every accepted message is processed exactly once by each node it reaches and offered once to every successor;
// rejected messages are kept by buffering/reserving senders or reported to the external try_put; a node with concurrency limit n
// never runs more than n bodies at once; wait_for_all returns only when nothing runs, nothing is in transit and every reserve_wait
// was released; after cancellation or an exception no further body starts.
// The real flow-graph templates run on the abstract scheduler vtbb: every node body contains a point where another virtual worker
// may run a whole graph task (bodies overlap), external try_puts are interleaved with task steps, which worker takes which task next
// is an explorer choice.  One case = one graph + parameters (policies, concurrency limits, message count, P).
#include <oneapi/tbb/flow_graph.h>
#include "vtbb.h"
#include "vfh.h"
#include <map>
#include <set>
#include <string>
using namespace tbb::flow;
struct NL { const char* name; size_t limit; int live; int maxlive; std::map<int, int> cnt; std::vector<int> order; NL(const char* n, size_t l) : name(n), limit(l), live(0), maxlive(0) {} };
static graph* G = nullptr; static bool quiet = false, check_cancel = true; static int throw_at = -1, bodies = 0, cancel_at = -1;
struct Boom { int id; };
static void enter(NL& n, int id, bool may_interleave = true) {
    if (quiet) vf_fail("body of %s started for message %d after wait_for_all had returned", n.name, id);
    if (check_cancel && G->my_context->is_group_execution_cancelled()) vf_fail("body of %s started for message %d after the graph was cancelled", n.name, id);
    n.cnt[id]++; n.order.push_back(id);
    if (n.limit && n.live >= (int)n.limit) vf_fail("node %s (concurrency limit %zu) runs %d bodies at once", n.name, n.limit, n.live + 1);
    n.live++; if (n.live > n.maxlive) n.maxlive = n.live;
    int me = bodies++; if (me == cancel_at) G->cancel();
    if (may_interleave) { vtbb::nested(); vtbb::interleave(); }   // not inside lightweight bodies: they run while the sender holds its successor-cache lock, so another thread that needs that lock waits for them
    if (me == throw_at) { n.live--; throw Boom{id}; }
}
static void leave(NL& n) { n.live--; }
static void once(NL& n, const std::set<int>& ids, int times = 1) {
    if (n.live) vf_fail("wait_for_all returned while %d bodies of %s are running", n.live, n.name);
    for (int id : ids) { auto it = n.cnt.find(id); int c = it == n.cnt.end() ? 0 : it->second; if (c != times) vf_fail("message %d was processed %d times by %s (expected %d)", id, c, n.name, times); }
    for (auto& kv : n.cnt) if (!ids.count(kv.first)) vf_fail("%s processed message %d which it never accepted", n.name, kv.first);
}
static void put_point() { vtbb::interleave(); }
static void waitall(graph& g) { g.wait_for_all(); quiet = true; }
static std::string ord(const NL& n) { std::string s; for (int x : n.order) { s += std::to_string(x); s += ','; } return s; }
static void reset_globals() { quiet = false; check_cancel = true; throw_at = -1; cancel_at = -1; bodies = 0; G = nullptr; }
template <class T> static size_t conc(T c) { return c == 0 ? (size_t)unlimited : (size_t)c; }

// ------------------------------------------------------------------ S1: [queue ->] A(policy, ca) -> B(queueing, cb) -> S(serial)
template <class Pol, bool Rej> static void chain(int ca, int cb, int k, int viaq, int P, const char* pn) {
    vtbb::init(P); reset_globals(); std::set<int> acc; int rej = 0; NL a("A", ca), b("B", cb), s("S", 1);
    { graph g; G = &g;
      function_node<int, int, Pol> A(g, conc(ca), [&](int x) noexcept(false) { enter(a, x); leave(a); return x; });
      function_node<int, int> B(g, conc(cb), [&](int x) { enter(b, x); leave(b); return x; });
      function_node<int, continue_msg> S(g, serial, [&](int x) { enter(s, x); leave(s); return continue_msg(); });
      queue_node<int> Q(g); if (viaq) make_edge(Q, A); make_edge(A, B); make_edge(B, S);
      for (int i = 1; i <= k; i++) { bool ok = viaq ? Q.try_put(i) : A.try_put(i); if (ok) acc.insert(i); else { rej++; if (viaq) vf_fail("queue_node rejected message %d", i); if (!Rej) vf_fail("a queueing function_node rejected message %d", i); } put_point(); }
      waitall(g); once(a, acc); once(b, acc); once(s, acc); }
    vtbb::finish(); vf_outcome("chain %s ca=%d cb=%d k=%d q=%d P=%d rejected=%d maxA=%d S:%s", pn, ca, cb, k, viaq, P, rej, a.maxlive, ord(s).c_str());
}
// lightweight policies need a noexcept body to take the inline path
template <class Pol, bool Rej> static void chain_lw(int ca, int cb, int k, int viaq, int P, const char* pn) {
    vtbb::init(P); reset_globals(); check_cancel = false; std::set<int> acc; int rej = 0; NL a("A", ca), b("B", cb), s("S", 1);
    { graph g; G = &g;
      function_node<int, int, Pol> A(g, conc(ca), [&](int x) noexcept { enter(a, x, false); leave(a); return x; });
      function_node<int, int, queueing_lightweight> B(g, conc(cb), [&](int x) noexcept { enter(b, x, false); leave(b); return x; });
      function_node<int, continue_msg> S(g, serial, [&](int x) { enter(s, x); leave(s); return continue_msg(); });
      queue_node<int> Q(g); if (viaq) make_edge(Q, A); make_edge(A, B); make_edge(B, S);
      for (int i = 1; i <= k; i++) { bool ok = viaq ? Q.try_put(i) : A.try_put(i); if (ok) acc.insert(i); else { rej++; if (viaq) vf_fail("queue_node rejected message %d", i); if (!Rej) vf_fail("a queueing function_node rejected message %d", i); } put_point(); }
      waitall(g); once(a, acc); once(b, acc); once(s, acc); }
    vtbb::finish(); vf_outcome("chain %s ca=%d cb=%d k=%d q=%d P=%d rejected=%d maxA=%d S:%s", pn, ca, cb, k, viaq, P, rej, a.maxlive, ord(s).c_str());
}
static void s_chain(long c) { int pol = c % 4; c /= 4; int ca = c % 3; c /= 3; int cb = c % 2; c /= 2; int k = 1 + c % 3; c /= 3; int viaq = c % 2; c /= 2; int P = 2 + c % 2;
    if (pol == 0) chain<queueing, false>(ca, cb, k, viaq, P, "queueing"); else if (pol == 1) chain<rejecting, true>(ca, cb, k, viaq, P, "rejecting");
    else if (pol == 2) chain_lw<queueing_lightweight, false>(ca, cb, k, viaq, P, "queueing_lw"); else chain_lw<rejecting_lightweight, true>(ca, cb, k, viaq, P, "rejecting_lw"); }

// ------------------------------------------------------------------ S1b: [queue ->] A(lightweight policy, noexcept body, limit ca) whose result nobody takes (no successor, or a
// successor that rejects while it is busy): the body runs inside try_put, so the message must be reported as accepted exactly if its body ran
template <class Pol> static void lwsink(int ca, int k, int viaq, int P, int succ, const char* pn) {
    vtbb::init(P); reset_globals(); check_cancel = false; std::set<int> acc; int rej = 0; NL a("A", ca), s("S", 1);
    { graph g; G = &g;
      function_node<int, int, Pol> A(g, conc(ca), [&](int x) noexcept { enter(a, x, false); leave(a); return x; });
      function_node<int, continue_msg, rejecting> S(g, serial, [&](int x) { enter(s, x); leave(s); return continue_msg(); });
      queue_node<int> Q(g); if (viaq) make_edge(Q, A); if (succ) make_edge(A, S);
      for (int i = 1; i <= k; i++) { bool ok = viaq ? Q.try_put(i) : A.try_put(i); if (ok) acc.insert(i); else rej++;
          if (!viaq) { bool ran = a.cnt.count(i) && a.cnt[i] > 0; if (ok != ran && (ok || ran)) { if (ran && !ok) vf_fail("try_put of message %d into a lightweight %s function_node returned false although its body had run for it", i, pn); } }
          put_point(); }
      waitall(g); once(a, acc); for (auto& kv : s.cnt) if (kv.second != 1) vf_fail("the successor processed message %d %d times", kv.first, kv.second); }
    vtbb::finish(); vf_outcome("lwsink %s ca=%d k=%d q=%d P=%d succ=%d rejected=%d A:%s", pn, ca, k, viaq, P, succ, rej, ord(a).c_str());
}
static void s_lwsink(long c) { int pol = c % 3; c /= 3; int ca = c % 3; c /= 3; int k = 1 + c % 3; c /= 3; int viaq = c % 2; c /= 2; int succ = c % 2; c /= 2; int P = 2 + c % 2;
    if (pol == 0) lwsink<queueing_lightweight>(ca, k, viaq, P, succ, "queueing_lightweight"); else if (pol == 1) lwsink<rejecting_lightweight>(ca, k, viaq, P, succ, "rejecting_lightweight"); else lwsink<lightweight>(ca, k, viaq, P, succ, "lightweight"); }

// ------------------------------------------------------------------ S2: buffering sender -> rejecting F (conc cf) -> sink: nothing lost, nothing twice
static void s_buffered(long c) { int kind = c % 4; c /= 4; int cf = 1 + c % 2; c /= 2; int k = 1 + c % 4; c /= 4; int P = 2 + c % 2; c /= 2; int late = c % 2;
    vtbb::init(P); reset_globals(); std::set<int> all; NL f("F", cf), s("S", 1); static const char* KN[] = {"buffer", "queue", "priority_queue", "sequencer"};
    { graph g; G = &g;
      function_node<int, int, rejecting> F(g, (size_t)cf, [&](int x) { enter(f, x); leave(f); return x; });
      function_node<int, continue_msg> S(g, serial, [&](int x) { enter(s, x); leave(s); return continue_msg(); }); make_edge(F, S);
      buffer_node<int> bn(g); queue_node<int> qn(g); priority_queue_node<int> pn(g); sequencer_node<int> sn(g, [](const int& v) -> size_t { return (size_t)v; });
      graph_node* src = nullptr; auto put = [&](int v) { bool ok = kind == 0 ? bn.try_put(v) : kind == 1 ? qn.try_put(v) : kind == 2 ? pn.try_put(v) : sn.try_put(v); if (!ok) vf_fail("%s_node rejected message %d", KN[kind], v); all.insert(v); };
      auto edge = [&] { if (kind == 0) make_edge(bn, F); else if (kind == 1) make_edge(qn, F); else if (kind == 2) make_edge(pn, F); else make_edge(sn, F); };
      (void)src; if (!late) edge();
      for (int i = 0; i < k; i++) { put(kind == 3 ? (k - 1 - i) : i); put_point(); }      // sequencer: tags arrive in reverse order
      if (late) { edge(); put_point(); }
      waitall(g); once(f, all); once(s, all);
      if ((kind == 1 || kind == 3) && cf == 1) for (size_t i = 0; i < f.order.size(); i++) if (f.order[i] != (int)i) vf_fail("%s_node: the serial successor received message %d at position %zu", KN[kind], f.order[i], i); }
    vtbb::finish(); vf_outcome("buffered %s cf=%d k=%d P=%d late=%d maxF=%d F:%s", KN[kind], cf, k, P, late, f.maxlive, ord(f).c_str());
}
// ------------------------------------------------------------------ S3: fan-out / fan-in
static void s_fan(long c) { int front = c % 3; c /= 3; int k = 1 + c % 3; c /= 3; int P = 2 + c % 2; c /= 2; int c2 = c % 2 ? 2 : 0;
    vtbb::init(P); reset_globals(); std::set<int> all; NL a("A", 0), f1("F1", 1), f2("F2", c2), s("S", 1);
    { graph g; G = &g;
      function_node<int, int> A(g, unlimited, [&](int x) { enter(a, x); leave(a); return x; }); broadcast_node<int> Bc(g); buffer_node<int> Bf(g);
      function_node<int, int> F1(g, serial, [&](int x) { enter(f1, x); leave(f1); return x; });
      function_node<int, int> F2(g, conc(c2), [&](int x) { enter(f2, x); leave(f2); return x + 100; });
      function_node<int, continue_msg> S(g, serial, [&](int x) { enter(s, x); leave(s); return continue_msg(); });
      if (front == 0) { make_edge(A, F1); make_edge(A, F2); } else if (front == 1) { make_edge(Bc, F1); make_edge(Bc, F2); } else { make_edge(Bf, F1); make_edge(Bf, F2); }
      make_edge(F1, S); make_edge(F2, S);
      for (int i = 1; i <= k; i++) { bool ok = front == 0 ? A.try_put(i) : front == 1 ? Bc.try_put(i) : Bf.try_put(i); if (!ok) vf_fail("front node rejected message %d", i); all.insert(i); put_point(); }
      waitall(g);
      if (front == 2) {   // buffer_node hands each message to exactly one successor
          std::set<int> got; for (auto& kv : f1.cnt) got.insert(kv.first); for (auto& kv : f2.cnt) { if (got.count(kv.first)) vf_fail("buffer_node handed message %d to both successors", kv.first); got.insert(kv.first); }
          if (got != all) vf_fail("buffer_node with two successors: %zu of %zu messages were delivered", got.size(), all.size());
          for (auto& kv : f1.cnt) if (kv.second != 1) vf_fail("F1 processed %d %d times", kv.first, kv.second); for (auto& kv : f2.cnt) if (kv.second != 1) vf_fail("F2 processed %d %d times", kv.first, kv.second);
          std::set<int> exp; for (auto& kv : f1.cnt) exp.insert(kv.first); for (auto& kv : f2.cnt) exp.insert(kv.first + 100); once(s, exp);
      } else { if (front == 0) once(a, all); once(f1, all); once(f2, all); std::set<int> exp; for (int i : all) { exp.insert(i); exp.insert(i + 100); } once(s, exp); } }
    vtbb::finish(); vf_outcome("fan front=%d k=%d P=%d c2=%d S:%s", front, k, P, c2, ord(s).c_str());
}
// ------------------------------------------------------------------ S5: queue -> limiter(t) -> F -> sink, F -> limiter.decrementer()
static void s_limiter(long c) { int t = 1 + c % 2; c /= 2; int k = 2 + c % 3; c /= 3; int cf = c % 2; c /= 2; int P = 2 + c % 2; c /= 2; int rej = c % 2;
    vtbb::init(P); reset_globals(); std::set<int> all; NL f("F", cf), s("S", 1); int started = 0, finished = 0, maxout = 0;
    { graph g; G = &g; queue_node<int> Q(g); limiter_node<int> L(g, (size_t)t);
      auto fb = [&](int x) { started++; if (started - finished > t) vf_fail("limiter_node(threshold %d): %d forwarded messages are not yet decremented", t, started - finished); if (started - finished > maxout) maxout = started - finished; enter(f, x); leave(f); finished++; return x; };
      function_node<int, int> Fq(g, conc(cf), fb); function_node<int, int, rejecting> Fr(g, conc(cf), fb);
      function_node<int, continue_msg> S(g, serial, [&](int x) { enter(s, x); leave(s); return continue_msg(); });
      function_node<int, continue_msg> D(g, unlimited, [&](int) { return continue_msg(); }); make_edge(D, L.decrementer());
      make_edge(Q, L); if (rej) { make_edge(L, Fr); make_edge(Fr, S); make_edge(Fr, D); } else { make_edge(L, Fq); make_edge(Fq, S); make_edge(Fq, D); }
      for (int i = 1; i <= k; i++) { if (!Q.try_put(i)) vf_fail("queue_node rejected %d", i); all.insert(i); put_point(); }
      waitall(g); once(f, all); once(s, all); }
    vtbb::finish(); vf_outcome("limiter t=%d k=%d cf=%d P=%d rej=%d maxout=%d S:%s", t, k, cf, P, rej, maxout, ord(s).c_str());
}
// ------------------------------------------------------------------ S7: continue_node with two predecessors
static void s_continue(long c) { int k = 1 + c % 3; c /= 3; int P = 2 + c % 2; c /= 2; int lw = c % 2;
    vtbb::init(P); reset_globals(); if (lw) check_cancel = false; NL a("A", 0), b("B", 1), cn("C", 0); int fired = 0;
    { graph g; G = &g;
      function_node<int, continue_msg> A(g, unlimited, [&](int x) { enter(a, x); leave(a); return continue_msg(); });
      function_node<int, continue_msg> B(g, serial, [&](int x) { enter(b, x); leave(b); return continue_msg(); });
      continue_node<continue_msg> C(g, [&](const continue_msg&) { enter(cn, fired++); leave(cn); return continue_msg(); });
      continue_node<continue_msg, lightweight> Cl(g, [&](const continue_msg&) noexcept { enter(cn, fired++, false); leave(cn); return continue_msg(); });
      if (lw) { make_edge(A, Cl); make_edge(B, Cl); } else { make_edge(A, C); make_edge(B, C); }
      std::set<int> all; for (int i = 1; i <= k; i++) { A.try_put(i); put_point(); B.try_put(i); put_point(); all.insert(i); }
      waitall(g); once(a, all); once(b, all); if (fired != k) vf_fail("continue_node with 2 predecessors fired %d times for %d signals from each", fired, k); }
    vtbb::finish(); vf_outcome("continue k=%d P=%d lw=%d fired=%d", k, P, lw, fired);
}
// ------------------------------------------------------------------ S8: multifunction_node with two output ports
static void s_multi(long c) { int k = 1 + c % 3; c /= 3; int P = 2 + c % 2; c /= 2; int cm = c % 3; c /= 3; int rej = c % 2;
    vtbb::init(P); reset_globals(); NL m("M", cm), s0("S0", 1), s1("S1", 0); std::set<int> acc, even, odd; int nrej = 0;
    { graph g; G = &g; using MF = multifunction_node<int, std::tuple<int, int>>; using MR = multifunction_node<int, std::tuple<int, int>, rejecting>;
      auto mb = [&](const int& x, auto& ports) { enter(m, x); if (x % 2 == 0) { if (!std::get<0>(ports).try_put(x)) vf_fail("output port 0 refused"); } else { if (!std::get<1>(ports).try_put(x)) vf_fail("output port 1 refused"); } leave(m); };
      MF M(g, conc(cm), [&](const int& x, MF::output_ports_type& p) { mb(x, p); }); MR R(g, conc(cm), [&](const int& x, MR::output_ports_type& p) { mb(x, p); });
      function_node<int, continue_msg> S0(g, serial, [&](int x) { enter(s0, x); leave(s0); return continue_msg(); }); function_node<int, continue_msg> S1(g, unlimited, [&](int x) { enter(s1, x); leave(s1); return continue_msg(); });
      if (rej) { make_edge(output_port<0>(R), S0); make_edge(output_port<1>(R), S1); } else { make_edge(output_port<0>(M), S0); make_edge(output_port<1>(M), S1); }
      for (int i = 1; i <= k; i++) { bool ok = rej ? R.try_put(i) : M.try_put(i); if (ok) { acc.insert(i); (i % 2 ? odd : even).insert(i); } else { nrej++; if (!rej) vf_fail("queueing multifunction_node rejected %d", i); } put_point(); }
      waitall(g); once(m, acc); once(s0, even); once(s1, odd); }
    vtbb::finish(); vf_outcome("multi k=%d P=%d cm=%d rej=%d rejected=%d", k, P, cm, rej, nrej);
}
// ------------------------------------------------------------------ S9: input_node -> F (rejecting serial / queueing) -> sink
static void s_input(long c) { int k = c % 4; c /= 4; int P = 2 + c % 2; c /= 2; int rej = c % 2; c /= 2; int cf = 1 + c % 2;
    vtbb::init(P); reset_globals(); NL f("F", cf), s("S", 1); int produced = 0; std::set<int> all;
    { graph g; G = &g;
      input_node<int> I(g, [&](tbb::flow_control& fc) -> int { if (quiet) vf_fail("input_node body ran after wait_for_all had returned"); if (produced == k) { fc.stop(); return 0; } all.insert(produced); return produced++; });
      function_node<int, int, rejecting> Fr(g, (size_t)cf, [&](int x) { enter(f, x); leave(f); return x; }); function_node<int, int> Fq(g, (size_t)cf, [&](int x) { enter(f, x); leave(f); return x; });
      function_node<int, continue_msg> S(g, serial, [&](int x) { enter(s, x); leave(s); return continue_msg(); });
      if (rej) { make_edge(I, Fr); make_edge(Fr, S); } else { make_edge(I, Fq); make_edge(Fq, S); }
      I.activate(); put_point(); waitall(g);
      if (produced != k) vf_fail("wait_for_all returned after the input_node produced %d of %d items", produced, k);
      once(f, all); once(s, all); if (cf == 1) for (size_t i = 0; i < f.order.size(); i++) if (f.order[i] != (int)i) vf_fail("input_node items reached the serial successor out of order: %d at position %zu", f.order[i], i); }
    vtbb::finish(); vf_outcome("input k=%d P=%d rej=%d cf=%d F:%s", k, P, rej, cf, ord(f).c_str());
}
// ------------------------------------------------------------------ S10: async_node, a foreign activity completes through the gateway
struct Pending { int x; async_node<int, int>::gateway_type* gw; };
static std::vector<Pending> pend; static int completed = 0;
static bool foreign_progress() { if (pend.empty()) return false; Pending p = pend.front(); pend.erase(pend.begin()); if (!p.gw->try_put(p.x + 1000)) vf_fail("gateway try_put was rejected"); completed++; p.gw->release_wait(); return true; }
static void s_async(long c) { int k = 1 + c % 3; c /= 3; int P = 2 + c % 2; c /= 2; int ca = c % 2;
    vtbb::init(P); reset_globals(); pend.clear(); completed = 0; NL a("async", ca), s("S", 1); std::set<int> all, res;
    { graph g; G = &g; using AN = async_node<int, int>;
      AN A(g, conc(ca), [&](const int& x, AN::gateway_type& gw) { enter(a, x); gw.reserve_wait(); pend.push_back({x, &gw}); leave(a); });
      function_node<int, continue_msg> S(g, serial, [&](int x) { enter(s, x); leave(s); return continue_msg(); }); make_edge(A, S);
      vtbb::set_idle_hook(foreign_progress);
      for (int i = 1; i <= k; i++) { if (!A.try_put(i)) vf_fail("async_node rejected %d", i); all.insert(i); res.insert(i + 1000); put_point(); if (vf_choose(2)) foreign_progress(); }
      waitall(g); if (!pend.empty()) vf_fail("wait_for_all returned although %zu reserve_wait calls are not yet released", pend.size());
      once(a, all); once(s, res); }
    vtbb::finish(); vf_outcome("async k=%d P=%d ca=%d S:%s", k, P, ca, ord(s).c_str());
}
// ------------------------------------------------------------------ S11: exception / cancellation: nothing starts afterwards, wait_for_all reports it, graph quiescent
static void s_cancel(long c) { int mode = c % 2; c /= 2; int at = c % 5; c /= 5; int k = 2 + c % 2; c /= 2; int P = 2 + c % 2; c /= 2; int ca = c % 2;
    vtbb::init(P); reset_globals(); NL a("A", ca), b("B", 1); bool thrown = false;
    { graph g; G = &g; if (mode == 0) throw_at = at; else cancel_at = at;
      function_node<int, int> A(g, conc(ca), [&](int x) { enter(a, x); leave(a); return x; });
      function_node<int, continue_msg> B(g, serial, [&](int x) { enter(b, x); leave(b); return continue_msg(); }); make_edge(A, B);
      int accepted = 0; for (int i = 1; i <= k; i++) { if (A.try_put(i)) accepted++; put_point(); }
      try { g.wait_for_all(); } catch (Boom&) { thrown = true; } catch (...) { vf_fail("wait_for_all threw something no body threw"); }
      quiet = true; bool hit = bodies > at;
      if (a.live || b.live) vf_fail("wait_for_all returned while a body is running");
      if (mode == 0 && hit && !thrown) vf_fail("a node body threw but wait_for_all returned normally");
      if (mode == 0 && !hit && thrown) vf_fail("wait_for_all threw although no body threw");
      if (hit && !g.is_cancelled()) vf_fail("graph::is_cancelled() is false after %s", mode == 0 ? "an exception" : "cancel()");
      if (mode == 0 && hit && !g.exception_thrown()) vf_fail("graph::exception_thrown() is false after an exception");
      for (auto& kv : a.cnt) if (kv.second != 1) vf_fail("A processed %d %d times", kv.first, kv.second); for (auto& kv : b.cnt) if (kv.second != 1 || !a.cnt.count(kv.first)) vf_fail("B processed %d %d times", kv.first, kv.second);
      if (!hit) { if ((int)b.cnt.size() != accepted) vf_fail("without a fault %zu of %d messages reached B", b.cnt.size(), accepted); } }
    vtbb::finish(); vf_outcome("cancel mode=%d at=%d k=%d P=%d ca=%d bodies=%d thrown=%d", mode, at, k, P, ca, bodies, thrown);
}

struct Block { const char* name; long count; void (*fn)(long); };
static Block blocks[] = {{"chain", 4 * 3 * 2 * 3 * 2 * 2, s_chain}, {"buffered", 4 * 2 * 4 * 2 * 2, s_buffered}, {"fan", 3 * 3 * 2 * 2, s_fan}, {"limiter", 2 * 3 * 2 * 2 * 2, s_limiter},
                         {"continue", 3 * 2 * 2, s_continue}, {"multi", 3 * 2 * 3 * 2, s_multi}, {"input", 4 * 2 * 2 * 2, s_input}, {"async", 3 * 2 * 2, s_async}, {"cancel", 2 * 5 * 2 * 2 * 2, s_cancel}, {"lwsink", 3 * 3 * 3 * 2 * 2 * 2, s_lwsink}};
static const char* only = nullptr;
static void scenario(long c) { for (auto& b : blocks) { if (only && strcmp(only, b.name)) continue; if (c < b.count) { b.fn(c); return; } c -= b.count; } }
int main(int argc, char** argv) {
    for (int i = 1; i + 1 < argc; i++) if (!strcmp(argv[i], "-p") && !strncmp(argv[i + 1], "only=", 5)) only = argv[i + 1] + 5;
    long n = 0; for (auto& b : blocks) if (!only || !strcmp(only, b.name)) n += b.count;
    return vf_main_cases(argc, argv, n, scenario);
}
