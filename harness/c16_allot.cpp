// VF-BUILD: tbb whitebox
// C16 (allotment arithmetic) - explicit-state breadth-first search over the REAL market / arena objects: three arenas of
// priorities 0/1/1 (slots 3/2/1, reserved 1/0/1), events = protocol-level demand changes exactly as arena::advertise_new_work,
// arena::out_of_work and nested_arena_context issue them, plus set_active_num_workers(L).  State = event history replayed on
// fresh objects, canonicalised; every reached state is checked: sum of allotments = min(total demand, effective limit),
// 0 <= allotted_i <= request_i, a lower priority level gets a worker only if every higher level is satisfied, with soft limit
// 0 at most one (mandatory) worker.   -b DEPTH
#include "governor.h"
#include "arena.h"
#include "market.h"
#include "thread_request_serializer.h"
#include "vf.h"
#include <cstdio>
#include <vector>
#include <set>
#include <string>
#include <deque>
using namespace tbb::detail;
struct Obs : r1::thread_request_observer { long total=0; void update(int d) override { total+=d; } };
struct Ev { int kind; int c; int md; int wd; int L; };
struct World { r1::market* m; Obs obs; std::vector<r1::arena*> ar; std::vector<r1::pm_client*> cl; };
static const int NC=3; static int prio[NC]={0,1,1}; static int slots[NC]={3,2,1}; static int reserved[NC]={1,0,1};
static World* build(const std::vector<Ev>& h, int L0){ World* w=new World; w->m=new r1::market(L0); w->m->set_thread_request_observer(w->obs);
  for(int i=0;i<NC;i++){ r1::arena& a=r1::arena::allocate_arena(nullptr, slots[i], reserved[i], prio[i]); w->ar.push_back(&a); r1::pm_client* c=w->m->create_client(a); w->cl.push_back(c); d1::constraints cs; w->m->register_client(c,cs); }
  for(auto&e:h){ if(e.kind==0) w->m->adjust_demand(*w->cl[e.c], e.md, e.wd); else w->m->set_active_num_workers(e.L); }
  return w; }
static std::string canon(World* w){ std::string s; s+="L"+std::to_string(w->m->my_num_workers_soft_limit)+" D"+std::to_string(w->m->my_total_demand)+" M"+std::to_string(w->m->my_mandatory_num_requested);
  for(int i=0;i<NC;i++){ s+=" ["+std::to_string(w->cl[i]->min_workers())+","+std::to_string(w->cl[i]->max_workers())+","+std::to_string(w->ar[i]->my_total_num_workers_requested)+","+std::to_string(w->ar[i]->my_mandatory_requests)+","+std::to_string(w->ar[i]->my_num_workers_allotted.load())+"]"; } return s; }
static std::string check(World* w){ int L=w->m->my_num_workers_soft_limit; int mand=w->m->my_mandatory_num_requested; int eff = (mand>0 && L==0)?1:L; int demand=0; for(int i=0;i<NC;i++) demand+=w->cl[i]->max_workers();
  if(demand!=w->m->my_total_demand) return "total demand mismatch";
  int expect = demand<eff?demand:eff; int sum=0; bool lenient0=false;
  if(L==0){ bool can=false; for(int i=0;i<NC;i++) if(w->cl[i]->min_workers()>0 && w->cl[i]->max_workers()>0) can=true; expect = can?1:0; } for(int i=0;i<NC;i++){ int a=w->ar[i]->my_num_workers_allotted.load(); sum+=a; if(a<0||a>w->cl[i]->max_workers()) return "allotted exceeds request"; }
  if(sum!=expect) return "sum allotted "+std::to_string(sum)+" != min(demand,limit) "+std::to_string(expect);
  // priority: a lower-priority level gets workers only if every higher level is fully satisfied
  for(int i=0;i<NC;i++) for(int j=0;j<NC;j++) if(prio[i]<prio[j] && w->ar[j]->my_num_workers_allotted.load()>0 && w->ar[i]->my_num_workers_allotted.load() < w->cl[i]->max_workers() && L>0) return "lower priority served before higher satisfied";
  return ""; }

// protocol-level events per arena, mirroring arena::advertise_new_work / out_of_work / nested_arena_context
enum { EV_SPAWN=0, EV_ENQ=1, EV_OUT_ALL=2, EV_OUT_MAND=3, EV_ENTER=4, EV_LEAVE=5, EV_LIMIT=6 };
struct PEv { int kind; int c; int L; };
struct Flags { int pool[NC]; int mand[NC]; int inside[NC]; };
static bool apply(World* w, Flags& f, const PEv& e){ int c=e.c; int maxw=slots[c]-reserved[c]; bool workerless = maxw==0; bool has_nonreserved = r1::arena::num_arena_slots(slots[c],reserved[c])>reserved[c];
  int md=0, wd=0;
  switch(e.kind){
    case EV_SPAWN: if(f.pool[c]) return false; f.pool[c]=1; wd=maxw; break;
    case EV_ENQ: { bool mneeded=false; if(has_nonreserved && !f.mand[c]){ f.mand[c]=1; mneeded=true; } bool wneeded=false; if(!f.pool[c]){ f.pool[c]=1; wneeded=true; } if(!mneeded&&!wneeded) return false; md=mneeded; wd=wneeded?maxw:0; if(mneeded&&workerless) wd=1; } break;
    case EV_OUT_ALL: { bool dm=f.mand[c]; bool rw=f.pool[c]; if(!dm&&!rw) return false; f.mand[c]=0; f.pool[c]=0; md=dm?-1:0; wd=rw?-maxw:0; if(dm&&workerless) wd=-1; } break;
    case EV_OUT_MAND: { if(!f.mand[c]) return false; f.mand[c]=0; md=-1; wd=0; if(workerless) wd=-1; } break;
    case EV_ENTER: if(f.inside[c]>=1) return false; f.inside[c]++; wd=-1; break;
    case EV_LEAVE: if(f.inside[c]<=0) return false; f.inside[c]--; wd=+1; break;
    case EV_LIMIT: w->m->set_active_num_workers(e.L); return true; }
  w->m->adjust_demand(*w->cl[c], md, wd); return true; }
static World* buildp(const std::vector<PEv>& h, Flags& f, bool& ok){ World* w=build({},2); f=Flags{}; ok=true; for(auto&e:h) if(!apply(w,f,e)) { ok=false; break; } return w; }

static void search(vf_custom_result* r){ std::vector<PEv> alphabet; for(int c=0;c<NC;c++) for(int k=EV_SPAWN;k<=EV_LEAVE;k++) alphabet.push_back({k,c,0}); for(int L: {0,1,2,4}) alphabet.push_back({EV_LIMIT,0,L});
  static const char* EN[]={"spawn","enqueue","out_of_work(all)","out_of_work(mandatory)","nested-enter","nested-leave","limit"};
  std::set<std::string> seen; std::deque<std::vector<PEv>> fr; fr.push_back({}); long trans=0; const int DEPTH=r->depth>0?r->depth:6;
  while(!fr.empty()){ auto h=fr.front(); fr.pop_front(); if((int)h.size()>=DEPTH) continue;
    for(auto&e:alphabet){ auto h2=h; h2.push_back(e); Flags f; bool ok; World* w2=buildp(h2,f,ok); if(!ok) continue; trans++;
      std::string bad=check(w2);
      if(!bad.empty()){ snprintf(r->violation,sizeof r->violation,"%s; state %s",bad.c_str(),canon(w2).c_str()); std::string t; for(auto&x:h2){ char b[64]; if(x.kind==EV_LIMIT) snprintf(b,64,"limit(%d) ",x.L); else snprintf(b,64,"%s(arena%d) ",EN[x.kind],x.c); t+=b; } snprintf(r->trace,sizeof r->trace,"%s",t.c_str()); r->states=seen.size(); r->transitions=trans; r->executions=trans; return; }
      std::string k=canon(w2)+" F"; for(int i=0;i<NC;i++) k+=std::to_string(f.pool[i])+std::to_string(f.mand[i])+std::to_string(f.inside[i]);
      if(seen.insert(k).second){ fr.push_back(h2); if(r->nsamples<4 && (seen.size()%211==7)){ std::string t; for(auto&x:h2){ char b[64]; if(x.kind==EV_LIMIT) snprintf(b,64,"limit(%d) ",x.L); else snprintf(b,64,"%s(arena%d) ",EN[x.kind],x.c); t+=b; } snprintf(r->samples[r->nsamples++],512,"%s=> %s",t.c_str(),k.c_str()); } } } }
  r->states=seen.size(); r->transitions=trans; r->executions=trans; r->distinct=seen.size(); }
int main(int argc,char**argv){ return vf_main_custom(argc,argv,search); }
