// VF-BUILD: access noinstr
// C05 (sequential leg) - the range pool of the work-balancing partitioners (d1::range_vector<Range, 8>, a ring of up to 8 subranges
// with relative depths) against a std::deque reference model: every sequence of length 1..L over
//   F<d> split_to_fill(d) for d in {3, 8, 16}, B pop_back, P pop_front
// on blocked_range<int>(0, 4096, 1) and on a range that stops being divisible early.  After every operation size(), back(), front(),
// back_depth(), front_depth() and is_divisible() must equal the model, and the ranges in the pool plus the ranges popped so far must
// tile the initial range (nothing lost, nothing handed out twice).  -p depth=L
#include <oneapi/tbb/parallel_for.h>
#include <oneapi/tbb/blocked_range.h>
#include "vfh.h"
#include <deque>
using namespace tbb::detail;
typedef tbb::blocked_range<int> R;
typedef d1::range_vector<R, 8> RV;
static const char* OPS[] = {"F3", "F8", "F16", "B", "P"}; static const int NOP = 5; static int DEPTH = 8;
struct M { int lo, hi; int depth; };
static void scenario(long c) {
    int variant = (int)(c % 2); c /= 2;                  // 0: [0,4096) grain 1   1: [0,40) grain 5 (indivisible below 10 elements)
    int len = 1; long block = NOP; while (c >= block) { c -= block; block *= NOP; len++; }
    int seq[16]; std::string name; for (int i = 0; i < len; i++) { seq[i] = (int)(c % NOP); c /= NOP; name += OPS[seq[i]]; name += ' '; }
    R init = variant == 0 ? R(0, 4096, 1) : R(0, 40, 5);
    RV rv(init); std::deque<M> m; m.push_back({init.begin(), init.end(), 0});
    std::vector<std::pair<int, int>> popped; int grain = (int)init.grainsize();
    auto divisible = [&](const M& x) { return x.hi - x.lo > grain; };
    auto check = [&](int step) {
        if ((size_t)rv.size() != m.size()) vf_fail("[%s] step %d: size() is %d, the model holds %zu ranges", name.c_str(), step, (int)rv.size(), m.size());
        if (rv.empty() != m.empty()) vf_fail("[%s] step %d: empty() wrong", name.c_str(), step);
        if (m.empty()) return;
        if (rv.back().begin() != m.back().lo || rv.back().end() != m.back().hi) vf_fail("[%s] step %d: back() is [%d,%d), expected [%d,%d)", name.c_str(), step, rv.back().begin(), rv.back().end(), m.back().lo, m.back().hi);
        if (rv.front().begin() != m.front().lo || rv.front().end() != m.front().hi) vf_fail("[%s] step %d: front() is [%d,%d), expected [%d,%d)", name.c_str(), step, rv.front().begin(), rv.front().end(), m.front().lo, m.front().hi);
        if (rv.back_depth() != m.back().depth || rv.front_depth() != m.front().depth) vf_fail("[%s] step %d: depths %d/%d, expected %d/%d", name.c_str(), step, (int)rv.front_depth(), (int)rv.back_depth(), m.front().depth, m.back().depth);
        for (int d : {3, 8, 16}) if (rv.is_divisible((d1::depth_t)d) != (m.back().depth < d && divisible(m.back()))) vf_fail("[%s] step %d: is_divisible(%d) wrong", name.c_str(), step, d); };
    check(0);
    for (int k = 0; k < len; k++) {
        int o = seq[k];
        if (o <= 2) { int d = o == 0 ? 3 : o == 1 ? 8 : 16; if (m.empty()) continue; rv.split_to_fill((d1::depth_t)d);
            while (m.size() < 8 && m.back().depth < d && divisible(m.back())) { M b = m.back(); R whole(b.lo, b.hi, grain); R right(whole, tbb::split()); m.back() = M{right.begin(), right.end(), b.depth + 1}; m.push_back(M{whole.begin(), whole.end(), b.depth + 1}); } }
        else if (o == 3) { if (m.empty()) continue; popped.push_back({rv.back().begin(), rv.back().end()}); rv.pop_back(); m.pop_back(); }
        else { if (m.empty()) continue; popped.push_back({rv.front().begin(), rv.front().end()}); rv.pop_front(); m.pop_front(); }
        check(k + 1); }
    // drain from the back like the partitioner does; everything must tile the initial range
    while (!m.empty()) { if (rv.empty()) vf_fail("[%s] pool empty although the model holds %zu ranges", name.c_str(), m.size()); popped.push_back({rv.back().begin(), rv.back().end()}); rv.pop_back(); m.pop_back(); check(99); }
    std::sort(popped.begin(), popped.end()); int at = init.begin();
    for (auto& p : popped) { if (p.first != at || p.second <= p.first) vf_fail("[%s] the subranges handed out do not tile the range: [%d,%d) follows position %d", name.c_str(), p.first, p.second, at); at = p.second; }
    if (at != init.end()) vf_fail("[%s] the subranges handed out end at %d, the range ends at %d", name.c_str(), at, init.end());
    vf_outcome("%d %s-> %zu pieces", variant, name.c_str(), popped.size());
}
int main(int argc, char** argv) {
    for (int i = 1; i + 1 < argc; i++) if (!strcmp(argv[i], "-p") && !strncmp(argv[i + 1], "depth=", 6)) DEPTH = atoi(argv[i + 1] + 6);
    long n = 0, b = NOP; for (int l = 1; l <= DEPTH; l++) { n += b; b *= NOP; }
    return vf_main_cases(argc, argv, 2 * n, scenario);
}
