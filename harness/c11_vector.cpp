// VF-BUILD: tbb access
// C11 - concurrent_vector growth: disjoint tiling ranges, elements constructed once with the right value, stable addresses,
// grow_to_at_least waits for construction; throwing constructor / allocator leaves a destructible, safely accessible vector.
// -p pre=N  -p prog="B|G3|L9"  ops: B push_back  E emplace_back  G<d> grow_by(d,value)  D<d> grow_by(d) (default value 0)  L<n> grow_to_at_least(n,value)
// -p throwat=K (K-th element construction in the window throws)  -p allocfail=K (K-th allocation in the window throws)
#include <oneapi/tbb/concurrent_vector.h>
#include "vfh.h"
#include <map>
using namespace vfh;
struct Thrown {};
static std::map<const void*, int>* live; static int g_ctor = 0, g_throwat = 0, g_alloc = 0, g_allocfail = 0; static bool g_arm = false;
static std::vector<std::pair<char*, size_t>>* regions;
static bool in_region(const void* p) { for (auto& r : *regions) if ((const char*)p >= r.first && (const char*)p + 8 <= r.first + r.second) return true; return false; }
struct El { int v; int pad;
    void born() { if (g_arm && ++g_ctor == g_throwat) throw Thrown(); if (in_region(this) && ++(*live)[this] != 1) vf_fail("element at %p constructed twice", (void*)this); }
    El() : v(0), pad(0x5a5a) { born(); } El(int x) : v(x), pad(0x5a5a) { born(); } El(const El& o) : v(o.v), pad(0x5a5a) { born(); } El(El&& o) : v(o.v), pad(0x5a5a) { born(); }
    ~El() { if (v == 0 && pad == 0) return; /* zero-filled slot of a failed growth: documented to be destroyed */
        auto it = live->find(this); if (it != live->end()) { if (--it->second < 0) vf_fail("element destroyed twice"); } } };
template <class T> struct Alloc { typedef T value_type; Alloc() {} template <class U> Alloc(const Alloc<U>&) {}
    T* allocate(size_t n) { if (g_arm && ++g_alloc == g_allocfail) throw std::bad_alloc(); char* p = (char*)malloc(n * sizeof(T) + 64); regions->push_back({p, n * sizeof(T)}); return (T*)p; }
    void deallocate(T* p, size_t) { for (auto& r : *regions) if (r.first == (char*)p) { r.second = 0; } free(p); }
    template <class U> bool operator==(const Alloc<U>&) const { return true; } template <class U> bool operator!=(const Alloc<U>&) const { return false; } };
typedef tbb::concurrent_vector<El, Alloc<El>> Vec;
struct Rng { int thread; char op; size_t lo, hi; int tag; const El* addr0; bool threw; };
static void scenario() {
    live = new std::map<const void*, int>(); regions = new std::vector<std::pair<char*, size_t>>();
    long pre = vf_param_int("pre", 0); std::vector<Rng> rs; std::vector<const El*> preaddr; std::vector<std::pair<size_t, int>> atleast; std::vector<std::pair<int, size_t>> unconstructed;
    {
    Vec v; for (long i = 0; i < pre; i++) v.push_back(El(1)); for (long i = 0; i < pre; i++) preaddr.push_back(&v[i]);
    std::vector<std::string> progs(1); for (const char* p = vf_param("prog", "B|G3|L9"); *p; p++) { if (*p == '|') progs.emplace_back(); else progs.back() += *p; }
    g_throwat = (int)vf_param_int("throwat", 0); g_allocfail = (int)vf_param_int("allocfail", 0); g_ctor = g_alloc = 0; g_arm = g_throwat || g_allocfail; int nthrown = 0;
    vf_liveness(1);
    auto ids = gated((int)progs.size(), nullptr, [&](int t) {
        for (const char* p = progs[t].c_str(); *p;) { if (*p == ',') { p++; continue; } char c = *p++; long a = strtol(p, (char**)&p, 10); int tag = 10 * (t + 1) + (int)rs.size() % 10; Rng r{t, c, 0, 0, tag, nullptr, false};
            try {
                if (c == 'B') { El e(tag); auto it = v.push_back(e); r.lo = it - v.begin(); r.hi = r.lo + 1; r.addr0 = &*it; }
                else if (c == 'E') { auto it = v.emplace_back(tag); r.lo = it - v.begin(); r.hi = r.lo + 1; r.addr0 = &*it; }
                else if (c == 'G') { El e(tag); auto it = v.grow_by(a, e); r.lo = it - v.begin(); r.hi = r.lo + a; r.addr0 = a ? &*it : nullptr; }
                else if (c == 'D') { r.tag = 0; auto it = v.grow_by(a); r.lo = it - v.begin(); r.hi = r.lo + a; r.addr0 = a ? &*it : nullptr; }
                else if (c == 'L') { El e(tag); size_t claimed_before = v.my_size.load(std::memory_order_relaxed); v.grow_to_at_least(a, e); r.lo = r.hi = 0; atleast.push_back({(size_t)a, tag});
                    size_t szn = v.size();
                    /* a call that found the claimed size at n or above only waits: it must at least wait until every segment below n is allocated (the recorded finding is about construction, not allocation) */
                    if (claimed_before >= (size_t)a && szn < (size_t)a && !g_arm) vf_fail("grow_to_at_least(%ld) found the claimed size at %zu and returned while capacity() is still %zu: it did not wait until the segments below n are allocated", a, claimed_before, v.capacity());
                    for (size_t i = szn; i < (size_t)a; i++) unconstructed.push_back({t, i});   // fault legs only: not even allocated (deferred, see below)
                    for (long i = 0; i < (long)std::min<size_t>(a, szn); i++) { const El* e2 = &v[i]; if (!in_region(e2)) vf_fail("element %ld outside allocated memory", i); if ((*live)[e2] != 1) unconstructed.push_back({t, (size_t)i}); } }
                else vf_fail("bad op");
            } catch (Thrown&) { r.threw = true; nthrown++; } catch (std::bad_alloc&) { r.threw = true; nthrown++; } catch (std::exception&) { r.threw = true; nthrown++; }
            rs.push_back(r); } });
    open_window_and_join(ids);
    g_arm = false;   /* liveness stays on: the sequential phase that follows must terminate too */
    size_t sz = v.size();
    if (!nthrown) {
        for (long i = 0; i < pre; i++) if (&v[i] != preaddr[i]) vf_fail("element %ld moved during growth", i);
        std::vector<int> owner(sz, -1);
        for (long i = 0; i < pre && i < (long)sz; i++) owner[i] = -2;
        for (size_t k = 0; k < rs.size(); k++) { auto& r = rs[k]; if (r.op == 'L') continue; if (r.hi > sz) vf_fail("returned range [%zu,%zu) exceeds size %zu", r.lo, r.hi, sz);
            for (size_t i = r.lo; i < r.hi; i++) { if (owner[i] != -1) vf_fail("index %zu handed out twice (ranges overlap)", i); owner[i] = (int)k; if (v[i].v != r.tag) vf_fail("element %zu has value %d, expected %d", i, v[i].v, r.tag); }
            if (r.hi > r.lo && &v[r.lo] != r.addr0) vf_fail("element %zu moved after it was returned", r.lo); }
        for (size_t i = 0; i < sz; i++) { const El* e = &v[i]; if (!in_region(e)) vf_fail("element %zu outside allocated memory", i); if ((*live)[e] != 1) vf_fail("element %zu constructed %d times", i, (*live)[e]);
            if (owner[i] == -1) { bool ok = false; for (auto& al : atleast) if (i < al.first && v[i].v == al.second) ok = true; if (!ok) vf_fail("index %zu below size() belongs to no call's range", i); } }
        size_t want = pre; for (auto& r : rs) want += r.hi - r.lo; size_t mx = 0; for (auto& al : atleast) mx = std::max(mx, al.first);
        if (sz < want || (atleast.empty() && sz != want)) vf_fail("size() %zu but calls received %zu indices", sz, want);
        // deferred (so that every other clause is checked first): elements below n not yet constructed when grow_to_at_least returned
        for (auto& u : unconstructed) { int k = u.second < owner.size() ? owner[u.second] : -1; bool other = false; char oc = '?';
            if (k >= 0 && rs[k].thread != u.first) { other = true; oc = rs[k].op; }
            if (k == -1) for (auto& r : rs) if (r.op == 'L' && r.thread != u.first) { other = true; oc = 'L'; }   // element created by another thread's grow_to_at_least
            if (other) vf_fail("grow_to_at_least returned while element %zu, claimed by a concurrent call (%c) of another thread, was still under construction", u.second, oc);
            vf_fail("grow_to_at_least returned before element %zu (not claimed by another thread's call) was constructed", u.second); }
        vf_outcome("size=%zu ", sz); for (auto& r : rs) vf_outcome("%c[%zu,%zu) ", r.op, r.lo, r.hi);
    } else {   // after a throw: accesses either work or throw, never touch unallocated memory; vector destructible
        int ok = 0, bad = 0; for (size_t i = 0; i < sz; i++) { try { const El& e = v.at(i); if (!in_region(&e)) vf_fail("at(%zu) returned memory that is not allocated", i); if ((*live)[&e] == 1) ok++; else bad++; } catch (std::exception&) { bad++; } }
        /* at() beyond size() must throw; the claimed size can be larger than size() after a failed growth, so the indices up to 40 are tried as well */
        for (size_t i = sz; i < 40; i++) { try { const El& e = v.at(i); if (!in_region(&e)) vf_fail("at(%zu) (size() is %zu) returned memory that is not allocated", i, sz); } catch (std::exception&) {} }
        try { v.push_back(El(99)); } catch (std::exception&) {} catch (Thrown&) {}
        vf_outcome("threw=%d size=%zu ok=%d broken=%d", nthrown, sz, ok, bad);
    }
    }   // destructor
    // (leaks after a failed growth are outside C11's statement: only double destruction is checked, in ~El)
}
int main(int argc, char** argv) { return vf_main(argc, argv, scenario); }
