// VF-BUILD: vtbb
// C05 (other iteration spaces) on the abstract scheduler: blocked_range2d/3d/nd, huge 1-d ranges (chunks must tile the range),
// strided parallel_for(first,last,step) incl. index types near their limits, parallel_for_each over random-access / forward
// iterators with feeder items, parallel_invoke with 2..10 functions, a range type that is not divisible (must never be split).
#include <oneapi/tbb/parallel_for.h>
#include <oneapi/tbb/parallel_for_each.h>
#include <oneapi/tbb/parallel_invoke.h>
#include <oneapi/tbb/blocked_range2d.h>
#include <oneapi/tbb/blocked_range3d.h>
#define TBB_PREVIEW_BLOCKED_ND_RANGE 1
#include <oneapi/tbb/blocked_nd_range.h>
#include "vtbb.h"
#include "vfh.h"
#include <forward_list>
#include <map>
#include <limits>
struct Block { const char* name; long count; };
static std::vector<Block> blocks; static std::vector<long> starts;
template <class P> static P make_part();
template <class F> static void with_part(int part, F f) { if (part == 0) { tbb::simple_partitioner p; f(p); } else if (part == 1) { tbb::auto_partitioner p; f(p); } else if (part == 2) { tbb::static_partitioner p; f(p); } else { tbb::affinity_partitioner p; f(p); } }
// ---- 2d
static void c2d(long c) { int part = c % 4; c /= 4; int P = 1 + c % 3; c /= 3; int rows = c % 5; c /= 5; int cols = c % 5; c /= 5; int rg = 1 + c % 2, cg = 1 + (c / 2) % 2;
    vtbb::init(P); std::map<std::pair<int, int>, int> hits;
    with_part(part, [&](auto& p) { tbb::parallel_for(tbb::blocked_range2d<int>(0, rows, rg, 0, cols, cg), [&](const tbb::blocked_range2d<int>& r) { if (r.rows().empty() || r.cols().empty()) vf_fail("empty 2d chunk"); for (int i = r.rows().begin(); i < r.rows().end(); i++) for (int j = r.cols().begin(); j < r.cols().end(); j++) hits[{i, j}]++; vtbb::nested(); vtbb::interleave(); }, p); });
    vtbb::finish(); if ((int)hits.size() != rows * cols) vf_fail("2d: %zu of %d cells visited", hits.size(), rows * cols); for (auto& kv : hits) if (kv.second != 1 || kv.first.first >= rows || kv.first.second >= cols) vf_fail("2d: cell (%d,%d) visited %d times", kv.first.first, kv.first.second, kv.second);
    vf_outcome("2d part=%d P=%d %dx%d g=%d,%d steals=%ld", part, P, rows, cols, rg, cg, vtbb::stats().steals); }
static void c3d(long c) { int part = c % 4; c /= 4; int P = 1 + c % 2; c /= 2; int a = c % 4; c /= 4; int b = c % 4; c /= 4; int d = c % 3;
    vtbb::init(P); std::map<int, int> hits;
    with_part(part, [&](auto& p) { tbb::parallel_for(tbb::blocked_range3d<int>(0, a, 1, 0, b, 1, 0, d, 1), [&](const tbb::blocked_range3d<int>& r) { for (int i = r.pages().begin(); i < r.pages().end(); i++) for (int j = r.rows().begin(); j < r.rows().end(); j++) for (int k = r.cols().begin(); k < r.cols().end(); k++) hits[i * 100 + j * 10 + k]++; vtbb::nested(); vtbb::interleave(); }, p); });
    vtbb::finish(); if ((int)hits.size() != a * b * d) vf_fail("3d: %zu of %d cells", hits.size(), a * b * d); for (auto& kv : hits) if (kv.second != 1) vf_fail("3d: cell %d visited %d times", kv.first, kv.second);
    vf_outcome("3d part=%d P=%d %dx%dx%d steals=%ld", part, P, a, b, d, vtbb::stats().steals); }
static void cnd(long c) { int part = c % 4; c /= 4; int P = 1 + c % 2; c /= 2; int a = c % 4; c /= 4; int b = c % 4; c /= 4; int g = 1 + c % 2;
    vtbb::init(P); std::map<int, int> hits; using R = tbb::blocked_nd_range<int, 2>;
    with_part(part, [&](auto& p) { tbb::parallel_for(R({0, a, (size_t)g}, {0, b, 1}), [&](const R& r) { for (int i = r.dim(0).begin(); i < r.dim(0).end(); i++) for (int j = r.dim(1).begin(); j < r.dim(1).end(); j++) hits[i * 10 + j]++; vtbb::nested(); vtbb::interleave(); }, p); });
    vtbb::finish(); if ((int)hits.size() != a * b) vf_fail("nd: %zu of %d cells", hits.size(), a * b); for (auto& kv : hits) if (kv.second != 1) vf_fail("nd: cell %d visited %d times", kv.first, kv.second);
    vf_outcome("nd part=%d P=%d %dx%d g=%d steals=%ld", part, P, a, b, g, vtbb::stats().steals); }
// ---- huge 1-d ranges: chunks must tile [0,n)
static void chuge(long c) { int part = c % 4; c /= 4; int P = 1 + c % 3; c /= 3; static const unsigned long long NS[] = {(1ull << 24) + 1, (1ull << 32) + 5, (1ull << 33) - 1, (1ull << 40) + 3, ~0ull - 2, (1ull << 63) + 1, 3000000007ull}; unsigned long long n = NS[c % 7]; c /= 7; unsigned long long leaves = (unsigned long long[]){5, 16, 33}[c % 3];
    unsigned long long g = n / leaves + 1; vtbb::init(P); std::vector<std::pair<unsigned long long, unsigned long long>> ch;
    with_part(part, [&](auto& p) { tbb::parallel_for(tbb::blocked_range<unsigned long long>(0, n, g), [&](const tbb::blocked_range<unsigned long long>& r) { if (!(r.begin() < r.end())) vf_fail("huge: empty chunk"); ch.push_back({r.begin(), r.end()}); vtbb::nested(); vtbb::interleave(); }, p); });
    vtbb::finish(); std::sort(ch.begin(), ch.end()); unsigned long long at = 0; for (auto& x : ch) { if (x.first != at) vf_fail("huge range n=%llu g=%llu: chunks %s at %llu (next chunk starts at %llu)", n, g, x.first < at ? "overlap" : "leave a gap", at, x.first); at = x.second; if (part == 0 && (x.second - x.first > g || x.second - x.first < (g + 1) / 2)) vf_fail("huge: simple_partitioner chunk size %llu for grain %llu", x.second - x.first, g); }
    if (at != n) vf_fail("huge range: chunks end at %llu, range ends at %llu", at, n); vf_outcome("huge part=%d P=%d n=%llu chunks=%zu steals=%ld", part, P, n, ch.size(), vtbb::stats().steals); }
// ---- strided parallel_for(first,last,step)
template <class I> static void strided(I first, I last, I step, int P, const char* tn) { vtbb::init(P); std::vector<long long> seen; tbb::parallel_for(first, last, step, [&](I i) { seen.push_back((long long)i); });
    vtbb::finish(); std::sort(seen.begin(), seen.end()); std::vector<long long> want; for (I i = first; i < last; ) { want.push_back((long long)i); if (last - i <= step) break; i = (I)(i + step); } if (seen != want) vf_fail("parallel_for(%lld,%lld,%lld) over %s visited %zu indices, expected %zu", (long long)first, (long long)last, (long long)step, tn, seen.size(), want.size());
    vf_outcome("strided %s %lld..%lld/%lld n=%zu", tn, (long long)first, (long long)last, (long long)step, want.size()); }
static void cstr(long c) { int P = 1 + c % 2; c /= 2; int kind = c % 4; c /= 4; int f = c % 4; c /= 4; int len = c % 9; c /= 9; int st = 1 + c % 4;
    if (kind == 0) strided<int>(f, f + len, st, P, "int"); else if (kind == 1) strided<unsigned char>((unsigned char)(240 + f), (unsigned char)(240 + f + len), (unsigned char)st, P, "uchar near 255");
    else if (kind == 2) strided<short>((short)(32750 + f), (short)(32750 + f + len), (short)st, P, "short near max"); else strided<unsigned long long>(~0ull - 20 + f, ~0ull - 20 + f + len, (unsigned long long)st, P, "ull near max"); }
// ---- strided loops whose SPAN is near the maximum of the index type (few iterations, large step): the iteration count must not overflow
template <class I> static void span(unsigned long long first, unsigned long long last, unsigned long long step, int P, const char* tn) { vtbb::init(P); std::vector<unsigned long long> seen;
    tbb::parallel_for((I)first, (I)last, (I)step, [&](I i) { seen.push_back((unsigned long long)i); }); vtbb::finish(); std::sort(seen.begin(), seen.end());
    std::vector<unsigned long long> want; for (unsigned __int128 i = first; i < last; i += step) want.push_back((unsigned long long)i);
    if (seen != want) vf_fail("parallel_for(%llu, %llu, step %llu) over %s visited %zu indices (first %llu), expected %zu", first, last, step, tn, seen.size(), seen.empty() ? 0ull : seen[0], want.size());
    vf_outcome("span %s %llu..%llu/%llu n=%zu", tn, first, last, step, want.size()); }
static void cspan(long c) { int P = 1 + c % 2; c /= 2; int kind = 0; if (c >= 9180) { c -= 9180; kind = 1 + (int)(c / 120); c %= 120; } static const unsigned long long F8[] = {0, 1, 7, 128}, S8[] = {2, 3, 50, 100, 127, 128, 200, 254, 255};
    if (kind == 0) { unsigned long long f = F8[c % 4]; c /= 4; unsigned long long st = S8[c % 9]; c /= 9; unsigned long long l = 1 + c % 255; if (l <= f) { vf_outcome("skip"); return; } span<unsigned char>(f, l, st, P, "unsigned char"); return; }
    static const unsigned long long MX[] = {0, 65535ull, 4294967295ull, ~0ull}; unsigned long long mx = MX[kind]; unsigned long long f = (unsigned long long[]){0, 1, 5}[c % 3]; c /= 3; unsigned long long l = mx - (unsigned long long[]){0, 5, 6, 1000}[c % 4]; c /= 4;
    unsigned long long parts = (unsigned long long[]){1, 2, 3, 4, 7}[c % 5]; unsigned long long st = (l - f) / parts; if (st < mx) st += (unsigned long long[]){0, 1}[(c / 5) % 2]; if (st < 2) st = 2; if (st > mx) st = mx;
    if (kind == 1) span<unsigned short>(f, l, st, P, "unsigned short"); else if (kind == 2) span<unsigned>(f, l, st, P, "unsigned"); else span<unsigned long long>(f, l, st, P, "unsigned long long"); }
// ---- huge 2-d ranges: chunk rectangles must tile the rectangle, a dimension that is not divisible is never cut, products of extents and grains exceed 2^64
static void c2dhuge(long c) { int part = c % 4; c /= 4; int P = 1 + c % 3; c /= 3;
    static const unsigned long long SH[][4] = {{(1ull << 34) + 16, 1ull << 31, 12, 1ull << 30}, {12, 1ull << 30, (1ull << 34) + 16, 1ull << 31}, {(1ull << 33) + 5, 1ull << 32, 7, 1ull << 33}, {(1ull << 40) + 3, 1ull << 38, 1ull << 20, 1ull << 19},
        {1ull << 62, 1ull << 60, 3, 1ull << 40}, {5, 1ull << 62, (1ull << 36) + 1, 1ull << 34}, {(1ull << 32) + 1, 1ull << 31, (1ull << 32) + 1, 1ull << 31}, {9, 4, 1ull << 63, 1ull << 61}};
    const unsigned long long* sh = SH[c % 8]; unsigned long long R = sh[0], rg = sh[1], C = sh[2], cg = sh[3]; vtbb::init(P);
    struct Rect { unsigned long long r0, r1, c0, c1; }; std::vector<Rect> ch;
    with_part(part, [&](auto& p) { tbb::parallel_for(tbb::blocked_range2d<unsigned long long>(0, R, rg, 0, C, cg), [&](const tbb::blocked_range2d<unsigned long long>& r) {
        if (r.rows().empty() || r.cols().empty()) vf_fail("huge 2d %llux%llu: empty chunk", R, C); if (ch.size() > 100000) vf_fail("huge 2d: more than 100000 chunks (endless splitting)"); ch.push_back({r.rows().begin(), r.rows().end(), r.cols().begin(), r.cols().end()}); vtbb::nested(); vtbb::interleave(); }, p); });
    vtbb::finish(); unsigned __int128 area = 0;
    for (size_t i = 0; i < ch.size(); i++) { const Rect& a = ch[i]; if (a.r1 > R || a.c1 > C) vf_fail("huge 2d: chunk outside the range"); area += (unsigned __int128)(a.r1 - a.r0) * (a.c1 - a.c0);
        if (R <= rg && (a.r0 != 0 || a.r1 != R)) vf_fail("huge 2d %llux%llu grains %llu,%llu: the row dimension is not divisible but a chunk covers rows [%llu,%llu)", R, C, rg, cg, a.r0, a.r1);
        if (C <= cg && (a.c0 != 0 || a.c1 != C)) vf_fail("huge 2d %llux%llu grains %llu,%llu: the column dimension is not divisible but a chunk covers columns [%llu,%llu)", R, C, rg, cg, a.c0, a.c1);
        if (part == 0 && ((a.r1 - a.r0 > rg) || (a.c1 - a.c0 > cg))) vf_fail("huge 2d: simple_partitioner chunk %llux%llu exceeds the grains %llu,%llu", a.r1 - a.r0, a.c1 - a.c0, rg, cg);
        for (size_t j = 0; j < i; j++) { const Rect& b = ch[j]; if (a.r0 < b.r1 && b.r0 < a.r1 && a.c0 < b.c1 && b.c0 < a.c1) vf_fail("huge 2d: two chunks overlap"); } }
    if (area != (unsigned __int128)R * C) vf_fail("huge 2d %llux%llu: the chunks do not cover the rectangle", R, C);
    vf_outcome("2dhuge part=%d P=%d shape=%ld chunks=%zu", part, P, c % 8, ch.size()); }
// ---- every overload of parallel_for (range/body, index forms with and without step; no partitioner / simple / auto / static / affinity; with and without a context)
static void covl(long c) { int P = 1 + c % 3; c /= 3; int ov = (int)(c % 30); c /= 30; int n = (int)(c % 7);
    vtbb::init(P); std::map<int, int> hits; tbb::task_group_context ctx; tbb::affinity_partitioner ap; tbb::simple_partitioner sp; tbb::auto_partitioner aup; tbb::static_partitioner stp;
    auto rb = [&](const tbb::blocked_range<int>& r) { if (r.empty()) vf_fail("overload %d: empty chunk", ov); for (int i = r.begin(); i < r.end(); i++) hits[i]++; vtbb::nested(); vtbb::interleave(); };
    auto ib = [&](int i) { hits[i]++; vtbb::interleave(); };
    tbb::blocked_range<int> R(0, n, 1); int form = ov / 10, k = ov % 10; bool wc = k >= 5; int pk = k % 5;   // pk: 0 none 1 simple 2 auto 3 static 4 affinity
    std::vector<int> want;
    if (form == 0) { for (int i = 0; i < n; i++) want.push_back(i);
        if (!wc) { if (pk == 0) tbb::parallel_for(R, rb); else if (pk == 1) tbb::parallel_for(R, rb, sp); else if (pk == 2) tbb::parallel_for(R, rb, aup); else if (pk == 3) tbb::parallel_for(R, rb, stp); else tbb::parallel_for(R, rb, ap); }
        else { if (pk == 0) tbb::parallel_for(R, rb, ctx); else if (pk == 1) tbb::parallel_for(R, rb, sp, ctx); else if (pk == 2) tbb::parallel_for(R, rb, aup, ctx); else if (pk == 3) tbb::parallel_for(R, rb, stp, ctx); else tbb::parallel_for(R, rb, ap, ctx); } }
    else if (form == 1) { for (int i = 2; i < 2 + n; i++) want.push_back(i);
        if (!wc) { if (pk == 0) tbb::parallel_for(2, 2 + n, ib); else if (pk == 1) tbb::parallel_for(2, 2 + n, ib, sp); else if (pk == 2) tbb::parallel_for(2, 2 + n, ib, aup); else if (pk == 3) tbb::parallel_for(2, 2 + n, ib, stp); else tbb::parallel_for(2, 2 + n, ib, ap); }
        else { if (pk == 0) tbb::parallel_for(2, 2 + n, ib, ctx); else if (pk == 1) tbb::parallel_for(2, 2 + n, ib, sp, ctx); else if (pk == 2) tbb::parallel_for(2, 2 + n, ib, aup, ctx); else if (pk == 3) tbb::parallel_for(2, 2 + n, ib, stp, ctx); else tbb::parallel_for(2, 2 + n, ib, ap, ctx); } }
    else { for (int i = 1; i < 1 + 3 * n; i += 3) want.push_back(i); int last = 1 + 3 * n - (n ? 1 : 0);   // step 3, last not on the grid
        if (!wc) { if (pk == 0) tbb::parallel_for(1, last, 3, ib); else if (pk == 1) tbb::parallel_for(1, last, 3, ib, sp); else if (pk == 2) tbb::parallel_for(1, last, 3, ib, aup); else if (pk == 3) tbb::parallel_for(1, last, 3, ib, stp); else tbb::parallel_for(1, last, 3, ib, ap); }
        else { if (pk == 0) tbb::parallel_for(1, last, 3, ib, ctx); else if (pk == 1) tbb::parallel_for(1, last, 3, ib, sp, ctx); else if (pk == 2) tbb::parallel_for(1, last, 3, ib, aup, ctx); else if (pk == 3) tbb::parallel_for(1, last, 3, ib, stp, ctx); else tbb::parallel_for(1, last, 3, ib, ap, ctx); } }
    vtbb::finish(); if (hits.size() != want.size()) vf_fail("parallel_for overload %d (form %d, partitioner %d, context %d), %zu iterations expected, %zu distinct indices visited", ov, form, pk, wc, want.size(), hits.size());
    for (int i : want) if (hits[i] != 1) vf_fail("parallel_for overload %d: index %d visited %d times", ov, i, hits[i]);
    vf_outcome("ovl %d P=%d n=%d steals=%ld", ov, P, n, vtbb::stats().steals); }
// ---- parallel_for_each
static int inv_hits[10]; template <int I> static void fi() { inv_hits[I]++; vtbb::nested(); vtbb::interleave(); }
// every overload of parallel_for_each (iterator pair / container / const container, with and without a context) and parallel_invoke with a trailing context
static void cfeovl(long c) { int P = 1 + c % 3; c /= 3; int ov = (int)(c % 7); c /= 7; int n = (int)(c % 5); vtbb::init(P); std::map<int, int> hits; tbb::task_group_context ctx; std::vector<int> v; for (int i = 0; i < n; i++) v.push_back(i); const std::vector<int>& cv = v;
    auto body = [&](int x) { hits[x]++; vtbb::interleave(); };
    if (ov == 0) tbb::parallel_for_each(v.begin(), v.end(), body); else if (ov == 1) tbb::parallel_for_each(v.begin(), v.end(), body, ctx); else if (ov == 2) tbb::parallel_for_each(v, body); else if (ov == 3) tbb::parallel_for_each(v, body, ctx);
    else if (ov == 4) tbb::parallel_for_each(cv, body); else if (ov == 5) tbb::parallel_for_each(cv, body, ctx);
    else { for (int i = 0; i < 10; i++) inv_hits[i] = 0; if (n < 2) n = 2; switch (n) { case 2: tbb::parallel_invoke(fi<0>, fi<1>, ctx); break; case 3: tbb::parallel_invoke(fi<0>, fi<1>, fi<2>, ctx); break; default: tbb::parallel_invoke(fi<0>, fi<1>, fi<2>, fi<3>, ctx); n = 4; }
        vtbb::finish(); for (int i = 0; i < 10; i++) if (inv_hits[i] != (i < n)) vf_fail("parallel_invoke(..., context) of %d functions: function %d ran %d times", n, i, inv_hits[i]); vf_outcome("invoke-ctx n=%d", n); return; }
    vtbb::finish(); if ((int)hits.size() != n) vf_fail("parallel_for_each overload %d: %zu of %d items processed", ov, hits.size(), n); for (auto& kv : hits) if (kv.second != 1) vf_fail("parallel_for_each overload %d: item %d processed %d times", ov, kv.first, kv.second);
    vf_outcome("for_each-ovl %d P=%d n=%d", ov, P, n); }
static void cfe(long c) { int P = 1 + c % 3; c /= 3; int fwd = c % 2; c /= 2; int n = c % 6; c /= 6; int feed = c % 3;   // each item < feed adds item+10 (one level)
    vtbb::init(P); std::map<int, int> hits; auto body = [&](int x, tbb::feeder<int>& fd) { hits[x]++; if (x < feed) fd.add(x + 10); vtbb::nested(); vtbb::interleave(); };
    if (fwd) { std::forward_list<int> l; for (int i = n - 1; i >= 0; i--) l.push_front(i); tbb::parallel_for_each(l.begin(), l.end(), body); } else { std::vector<int> v; for (int i = 0; i < n; i++) v.push_back(i); tbb::parallel_for_each(v.begin(), v.end(), body); }
    vtbb::finish(); int want = n + (feed < n ? feed : n); if ((int)hits.size() != want) vf_fail("parallel_for_each: %zu distinct items processed, expected %d", hits.size(), want); for (auto& kv : hits) if (kv.second != 1) vf_fail("parallel_for_each: item %d processed %d times", kv.first, kv.second);
    vf_outcome("for_each P=%d %s n=%d feed=%d steals=%ld", P, fwd ? "forward" : "random", n, feed, vtbb::stats().steals); }
// ---- parallel_invoke
static void cinv(long c) { int P = 1 + c % 3; c /= 3; int n = 2 + c % 9; vtbb::init(P); for (int i = 0; i < 10; i++) inv_hits[i] = 0;
    switch (n) { case 2: tbb::parallel_invoke(fi<0>, fi<1>); break; case 3: tbb::parallel_invoke(fi<0>, fi<1>, fi<2>); break; case 4: tbb::parallel_invoke(fi<0>, fi<1>, fi<2>, fi<3>); break; case 5: tbb::parallel_invoke(fi<0>, fi<1>, fi<2>, fi<3>, fi<4>); break;
        case 6: tbb::parallel_invoke(fi<0>, fi<1>, fi<2>, fi<3>, fi<4>, fi<5>); break; case 7: tbb::parallel_invoke(fi<0>, fi<1>, fi<2>, fi<3>, fi<4>, fi<5>, fi<6>); break; case 8: tbb::parallel_invoke(fi<0>, fi<1>, fi<2>, fi<3>, fi<4>, fi<5>, fi<6>, fi<7>); break;
        case 9: tbb::parallel_invoke(fi<0>, fi<1>, fi<2>, fi<3>, fi<4>, fi<5>, fi<6>, fi<7>, fi<8>); break; default: tbb::parallel_invoke(fi<0>, fi<1>, fi<2>, fi<3>, fi<4>, fi<5>, fi<6>, fi<7>, fi<8>, fi<9>); }
    vtbb::finish(); for (int i = 0; i < 10; i++) if (inv_hits[i] != (i < n)) vf_fail("parallel_invoke of %d functions: function %d ran %d times", n, i, inv_hits[i]); vf_outcome("invoke P=%d n=%d steals=%ld", P, n, vtbb::stats().steals); }
// ---- a range that is not divisible must never be split
struct Solid { int b, e; bool empty() const { return b >= e; } bool is_divisible() const { return false; } Solid(int b_, int e_) : b(b_), e(e_) {} Solid(Solid&, tbb::split) : b(0), e(0) { vf_fail("a range whose is_divisible() is false was split"); } };
static void csolid(long c) { int part = c % 4; c /= 4; int P = 1 + c % 3; vtbb::init(P); int calls = 0; with_part(part, [&](auto& p) { tbb::parallel_for(Solid(0, 7), [&](const Solid& r) { calls++; if (r.b != 0 || r.e != 7) vf_fail("indivisible range changed"); }, p); }); vtbb::finish(); if (calls != 1) vf_fail("indivisible range: body called %d times", calls); vf_outcome("solid part=%d P=%d", part, P); }
// ---- one split of a multi-dimensional range in which one dimension is exactly one grain (not divisible) and another is one element
// longer than its grain G = 2^k: the split must go to the divisible dimension whatever the magnitudes (the choice compares
// size/grainsize ratios; ties and rounding must not send the split to the dimension that cannot be split), both parts non-empty.
static const int RK[] = {2, 10, 23, 24, 25, 31, 32, 40, 52, 53, 54, 62};
template <class D> static void ratio_check(const char* what, unsigned long long g0, unsigned long long G, const D& solid_a, const D& solid_b, const D& long_a, const D& long_b) {
    if (solid_a.begin() != 0 || solid_a.end() != g0 || solid_b.begin() != 0 || solid_b.end() != g0) vf_fail("%s: the dimension of size %llu with grainsize %llu (not divisible) was split into [%llu,%llu) and [%llu,%llu) although the other dimension (size %llu, grainsize %llu) is divisible", what, g0, g0, (unsigned long long)solid_a.begin(), (unsigned long long)solid_a.end(), (unsigned long long)solid_b.begin(), (unsigned long long)solid_b.end(), G + 1, G);
    if (long_a.empty() || long_b.empty()) vf_fail("%s: a split produced an empty part", what);
    if (long_a.begin() != 0 || long_a.end() != long_b.begin() || long_b.end() != G + 1) vf_fail("%s: the parts [%llu,%llu) and [%llu,%llu) do not tile [0,%llu)", what, (unsigned long long)long_a.begin(), (unsigned long long)long_a.end(), (unsigned long long)long_b.begin(), (unsigned long long)long_b.end(), G + 1); }
static void cratio(long c) { typedef unsigned long long U; int kind = c % 4; c /= 4; int first = c % 2; c /= 2; int st = c % 3; c /= 3; U g0 = c % 2 ? 5 : 1; c /= 2; U G = (U)1 << RK[c % 12];
    auto do_split = [&](auto& a) { typedef typename std::decay<decltype(a)>::type R; if (!a.is_divisible()) vf_fail("a range with a divisible dimension reports is_divisible() == false"); tbb::proportional_split p11(1, 1), p13(1, 3); return st == 0 ? R(a, tbb::split()) : st == 1 ? R(a, p11) : R(a, p13); };
    if (kind == 0) { tbb::blocked_range2d<U> a = first ? tbb::blocked_range2d<U>(0, g0, g0, 0, G + 1, G) : tbb::blocked_range2d<U>(0, G + 1, G, 0, g0, g0); auto b = do_split(a);
        if (first) ratio_check("blocked_range2d", g0, G, a.rows(), b.rows(), a.cols(), b.cols()); else ratio_check("blocked_range2d", g0, G, a.cols(), b.cols(), a.rows(), b.rows()); }
    else if (kind == 1) { tbb::blocked_range3d<U> a = first ? tbb::blocked_range3d<U>(0, g0, g0, 0, g0, g0, 0, G + 1, G) : tbb::blocked_range3d<U>(0, G + 1, G, 0, g0, g0, 0, g0, g0); auto b = do_split(a);
        if (first) { ratio_check("blocked_range3d", g0, G, a.pages(), b.pages(), a.cols(), b.cols()); ratio_check("blocked_range3d", g0, G, a.rows(), b.rows(), a.cols(), b.cols()); } else { ratio_check("blocked_range3d", g0, G, a.rows(), b.rows(), a.pages(), b.pages()); ratio_check("blocked_range3d", g0, G, a.cols(), b.cols(), a.pages(), b.pages()); } }
    else if (kind == 2) { typedef tbb::blocked_nd_range<U, 2> R; tbb::blocked_range<U> s0(0, g0, g0), l0(0, G + 1, G); R a = first ? R(s0, l0) : R(l0, s0); auto b = do_split(a);
        ratio_check("blocked_nd_range<2>", g0, G, a.dim(first ? 0 : 1), b.dim(first ? 0 : 1), a.dim(first ? 1 : 0), b.dim(first ? 1 : 0)); }
    else { typedef tbb::blocked_nd_range<U, 3> R; tbb::blocked_range<U> s0(0, g0, g0), l0(0, G + 1, G); R a = first ? R(s0, s0, l0) : R(l0, s0, s0); auto b = do_split(a);
        ratio_check("blocked_nd_range<3>", g0, G, a.dim(1), b.dim(1), a.dim(first ? 2 : 0), b.dim(first ? 2 : 0)); ratio_check("blocked_nd_range<3>", g0, G, a.dim(first ? 0 : 2), b.dim(first ? 0 : 2), a.dim(first ? 2 : 0), b.dim(first ? 2 : 0)); }
    vf_outcome("ratio kind=%d first=%d split=%d g0=%llu G=2^%d", kind, first, st, g0, RK[c % 12]); }
typedef void (*Fn)(long);
static Fn fns[] = {c2d, c3d, cnd, chuge, cstr, cspan, c2dhuge, covl, cfeovl, cfe, cinv, csolid, cratio};
static void scenario(long c) { for (size_t i = 0; i < blocks.size(); i++) if (c < starts[i] + blocks[i].count) { fns[i](c - starts[i]); return; } }
int main(int argc, char** argv) {
    blocks = {{"2d", 4L * 3 * 5 * 5 * 4}, {"3d", 4L * 2 * 4 * 4 * 3}, {"nd", 4L * 2 * 4 * 4 * 2}, {"huge", 4L * 3 * 7 * 3}, {"strided", 2L * 4 * 4 * 9 * 4}, {"span", 2L * (9180 + 3 * 120)}, {"2dhuge", 4L * 3 * 8}, {"overloads", 3L * 30 * 7}, {"fe-overloads", 3L * 7 * 5}, {"for_each", 3L * 2 * 6 * 3}, {"invoke", 3L * 9}, {"solid", 4L * 3}, {"ratio", 4L * 2 * 3 * 2 * 12}};
    long s = 0; for (auto& b : blocks) { starts.push_back(s); s += b.count; }
    return vf_main_cases(argc, argv, s, scenario);
}
