// VF-BUILD: vtbb
// C05 (parallel_for over blocked_range) - the body is applied exactly once to every element and to nothing else; chunks are
// non-empty, disjoint and cover the range; simple_partitioner chunk sizes lie in [ceil(g/2), g].  The real parallel_for /
// partitioner templates run on the abstract scheduler; every task-level schedule (who pops / steals / takes mail) within the
// deviation bound is enumerated for every input (n, grain, partitioner, P).
// -p nmax=24 -p gmax=4 -p pmax=3
#include <oneapi/tbb/parallel_for.h>
#include <oneapi/tbb/partitioner.h>
#include <oneapi/tbb/blocked_range.h>
#include "vtbb.h"
#include "vfh.h"
static int NMAX = 24, GMAX = 4, PMAX = 3;
struct Case { int part, P, n, g; };
static Case decode(long c) { Case k; k.g = 1 + (int)(c % GMAX); c /= GMAX; k.n = (int)(c % (NMAX + 1)); c /= (NMAX + 1); k.P = 1 + (int)(c % PMAX); c /= PMAX; k.part = (int)c; return k; }
static const char* PN[] = {"simple", "auto", "static", "affinity"};
static void scenario(long c) {
    Case k = decode(c); vtbb::init(k.P);
    std::vector<int> hits(k.n + 2, 0); std::vector<std::pair<int, int>> chunks;
    auto body = [&](const tbb::blocked_range<int>& r) { if (r.begin() >= r.end()) vf_fail("empty chunk [%d,%d) handed to the body", r.begin(), r.end()); if (r.begin() < 0 || r.end() > k.n) vf_fail("chunk [%d,%d) outside the range [0,%d)", r.begin(), r.end(), k.n);
        chunks.push_back({r.begin(), r.end()}); for (int i = r.begin(); i < r.end(); i++) hits[i]++; vtbb::nested(); vtbb::interleave(); };
    tbb::blocked_range<int> range(0, k.n, k.g); int rounds = 1;
    if (k.part == 0) tbb::parallel_for(range, body, tbb::simple_partitioner());
    else if (k.part == 1) tbb::parallel_for(range, body, tbb::auto_partitioner());
    else if (k.part == 2) tbb::parallel_for(range, body, tbb::static_partitioner());
    else { tbb::affinity_partitioner ap; tbb::parallel_for(range, body, ap); rounds = 2; tbb::parallel_for(range, body, ap); }
    vtbb::finish();
    for (int i = 0; i < k.n; i++) if (hits[i] != rounds) vf_fail("%s partitioner, n=%d grain=%d P=%d: element %d visited %d times", PN[k.part], k.n, k.g, k.P, i, hits[i] / 1);
    if (k.part == 0) for (auto& ch : chunks) { int sz = ch.second - ch.first; if (k.n > k.g ? (sz > k.g || sz < (k.g + 1) / 2) : sz != k.n) vf_fail("simple_partitioner: chunk [%d,%d) of size %d for grain %d (n=%d)", ch.first, ch.second, sz, k.g, k.n); }
    vtbb::Stats st = vtbb::stats(); vf_outcome("%s P=%d n=%d g=%d steals=%ld mails=%ld chunks:", PN[k.part], k.P, k.n, k.g, st.steals, st.mails); for (auto& ch : chunks) vf_outcome(" %d-%d", ch.first, ch.second);
}
int main(int argc, char** argv) {
    for (int i = 1; i + 1 < argc; i++) if (!strcmp(argv[i], "-p")) { if (!strncmp(argv[i + 1], "nmax=", 5)) NMAX = atoi(argv[i + 1] + 5); if (!strncmp(argv[i + 1], "gmax=", 5)) GMAX = atoi(argv[i + 1] + 5); if (!strncmp(argv[i + 1], "pmax=", 5)) PMAX = atoi(argv[i + 1] + 5); }
    return vf_main_cases(argc, argv, 4L * PMAX * (NMAX + 1) * GMAX, scenario);
}
