// VF-BUILD: tbb whitebox
// C02 (1) - concurrent_monitor: a sleeper's prepare_wait / re-check / commit_wait (or cancel_wait) against a notifier's
// state change + notify_one / notify_all / notify(pred) / abort_all never loses a wake-up.  White-box, real code.
// -p sleepers=N (1..2)  -p notify=one|all|pred|abort|relaxed  -p notifiers=M (each sets its own flag bit)  -p plainset=1 (store instead of fetch_add)
#include "concurrent_monitor.h"
#include "vfh.h"
#include <atomic>
using namespace vfh; using namespace tbb::detail;
static std::atomic<int> flag{0};
static void scenario() {
    int sleepers = (int)vf_param_int("sleepers", 1), notifiers = (int)vf_param_int("notifiers", 1); const char* how = vf_param("notify", "one");
    r1::concurrent_monitor mon; std::vector<int> woke(sleepers, 0), aborted(sleepers, 0);
    vf_liveness(1);
    auto ids = gated(sleepers + notifiers, nullptr, [&](int i) {
        if (i < sleepers) { r1::concurrent_monitor::thread_context ctx{std::uintptr_t(i + 1)};
            try { for (;;) { mon.prepare_wait(ctx); if (flag.load(std::memory_order_relaxed) == notifiers) { mon.cancel_wait(ctx); break; } if (mon.commit_wait(ctx) && flag.load(std::memory_order_relaxed) == notifiers) break; } woke[i] = 1; }
            catch (tbb::detail::r1::user_abort&) { aborted[i] = 1; } }
        else { if (notifiers == 1 && vf_param_int("plainset", 0)) flag.store(1, std::memory_order_relaxed);   // a plain store: only the monitor's own fence orders it before the wait-set test (matters under -tso)
            else flag.fetch_add(1, std::memory_order_relaxed);   // the condition becomes true with the last notifier
            if (streq(how, "one")) { for (int k = 0; k < sleepers; k++) mon.notify_one(); }
            else if (streq(how, "all")) mon.notify_all();
            else if (streq(how, "pred")) mon.notify([](std::uintptr_t c) { return c >= 1; });
            else if (streq(how, "relaxed")) mon.notify_all_relaxed();
            else if (streq(how, "abort")) mon.abort_all(); } });
    if (streq(how, "abort")) { // abort only speaks about threads that are waiting when it runs: repeat until every sleeper returned
        vf_window(1); vf_gate_open(); for (;;) { int done = 0; for (int i = 0; i < sleepers; i++) done += woke[i] + aborted[i]; if (done == sleepers) break; mon.abort_all(); vf_yield(); } join_all(ids); vf_window(0); }
    else open_window_and_join(ids);
    vf_liveness(0);
    for (int i = 0; i < sleepers; i++) if (!woke[i] && !aborted[i]) vf_fail("sleeper %d never returned", i);
    vf_outcome("woke="); for (int i = 0; i < sleepers; i++) vf_outcome("%d", woke[i] + 2 * aborted[i]);
}
int main(int argc, char** argv) { return vf_main(argc, argv, scenario); }
