// VF-BUILD: malloc noinstr
// C18 - tbbmalloc fails cleanly and memory pools stay inside / give back their raw memory.  Fault enumeration: every raw
// memory request (mmap for the default pool, the raw callback for memory pools) is an explorer choice "succeed / fail", so
// deviation bound b covers every pattern of at most b failing raw requests in the history; each execution is a fresh process.
// -p kind=default  history on the default pool (small slabs, fitting, large, huge, aligned, calloc, realloc), mmap interposed
//         pool     history on a memory pool with growing raw memory      fixed   fixed pool (buffer handed out once)
//         twopools two pools, blocks of both alive                       extreme (no faults) overflow / extreme arguments
//         cxx      C++ allocators must throw std::bad_alloc
//         poolreset_tls  threads used the pool and ended before pool_reset (-p threads=N); afterwards histories in the main thread and in a new thread
//         poolorphan  pool whose slabs were orphaned by a finished thread and emptied by another thread, then raw memory is refused (-p keep=N live blocks of the finished thread)
#include <oneapi/tbb/scalable_allocator.h>
#include "vfh.h"
#include "vfmalloc.h"
#include <sys/mman.h>
#include <sys/syscall.h>
#include <unistd.h>
#include <cerrno>
#include <new>
using namespace vfh;
namespace rml { namespace internal { class TLSData; } } void doThreadShutdownNotification(rml::internal::TLSData*, bool);   // what the pthread key destructor runs at thread exit
static bool armed = false; static int raw_calls = 0, raw_failed = 0;
static int nulls = 0; static bool allow_null = false; static char fixed_buf[1 << 23];
// persist: once a raw request has been refused every later one is refused too (memory stays exhausted) - one choice per request until then
static bool persist = false, failing = false, pool_raw_faults = true;
static bool refuse() { if (failing) return true; if (vf_choose(2)) { if (persist) failing = true; return true; } return false; }
extern "C" void* mmap(void* addr, size_t len, int prot, int flags, int fd, off_t off) {
    if (armed) { raw_calls++; if (refuse()) { raw_failed++; errno = ENOMEM; return MAP_FAILED; } }
    return (void*)syscall(SYS_mmap, addr, len, prot, flags, fd, off); }
struct Region { char* p; size_t n; bool live; };
struct PoolEnv { std::vector<Region> regions; int calls = 0; };
static PoolEnv env[3];
static void* raw_alloc(std::intptr_t id, std::size_t& bytes) { PoolEnv& e = env[id]; e.calls++; if (armed && pool_raw_faults) { raw_calls++; if (refuse()) { raw_failed++; return nullptr; } }
    if (allow_null) { bytes = sizeof(fixed_buf); e.regions.push_back({fixed_buf, bytes, true}); return fixed_buf; }   // fixed pool: one buffer, handed out once
    // page-aligned private mappings of their own, like a real user of memory pools would supply (so that any mmap-family call the
    // allocator makes on them would work)
    char* p = (char*)syscall(SYS_mmap, nullptr, (bytes + 4095) & ~(size_t)4095, PROT_READ | PROT_WRITE, MAP_PRIVATE | MAP_ANONYMOUS, -1, 0); if (p == MAP_FAILED) return nullptr;
    e.regions.push_back({p, bytes, true}); return p; }
// the raw memory of a user pool belongs to the user: the allocator must never remap / unmap it behind the callbacks' back
extern "C" void* mremap(void* old_addr, size_t old_len, size_t new_len, int flags, ...) {
    for (int id = 1; id < 3; id++) for (auto& r : env[id].regions) if (r.live && (char*)old_addr >= r.p && (char*)old_addr < r.p + r.n) vf_fail("tbbmalloc called mremap(%p, %zu -> %zu) on raw memory of user pool %d", old_addr, old_len, new_len, id);
    return (void*)syscall(SYS_mremap, old_addr, old_len, new_len, flags); }
extern "C" int munmap(void* addr, size_t len) {
    for (int id = 1; id < 3; id++) for (auto& r : env[id].regions) if (r.live && (char*)addr < r.p + r.n && (char*)addr + len > r.p) vf_fail("tbbmalloc called munmap(%p, %zu) on raw memory of user pool %d", addr, len, id);
    return (int)syscall(SYS_munmap, addr, len); }
static int raw_free(std::intptr_t id, void* p, std::size_t n) { for (auto& r : env[id].regions) if (r.p == p) { if (!r.live) vf_fail("pool %ld returned raw region %p twice", (long)id, p); if (n != r.n) vf_fail("pool %ld returned raw region %p with size %zu, it was obtained with size %zu", (long)id, p, n, r.n); r.live = false; if (r.p != fixed_buf) syscall(SYS_munmap, r.p, (r.n + 4095) & ~(size_t)4095); return 0; } vf_fail("pool %ld returned a raw region it never obtained", (long)id); return 1; }
static bool inside(int id, void* p, size_t n) { for (auto& r : env[id].regions) if (r.live && (char*)p >= r.p && (char*)p + n <= r.p + r.n) return true; return false; }
static void note(ShadowHeap& h, void* p, size_t n, size_t al, const char* what) { if (!p) { nulls++; if (!raw_failed && !allow_null) vf_fail("%s(%zu) failed although no raw memory request was refused", what, n); return; } h.add(p, n, al, what); }

static void history_default(ShadowHeap& h) {
    for (int i = 0; i < 40; i++) note(h, scalable_malloc(48), 48, 16, "scalable_malloc"); h.check_all("small");
    for (int i = 0; i < 6; i++) note(h, scalable_malloc(7000), 7000, 16, "scalable_malloc"); h.check_all("fitting");
    note(h, scalable_malloc(100000), 100000, 16, "scalable_malloc"); h.check_all("large");
    note(h, scalable_aligned_malloc(5000, 4096), 5000, 4096, "scalable_aligned_malloc");
    { void* p = scalable_calloc(300, 1000); if (p) for (size_t i = 0; i < 300000; i++) if (((char*)p)[i]) vf_fail("calloc not zeroed"); note(h, p, 300000, 16, "scalable_calloc"); }
    note(h, scalable_malloc(20000000), 20000000, 16, "scalable_malloc"); h.check_all("huge");
    { void* m = nullptr; int rc = scalable_posix_memalign(&m, 64, 3000); if (rc == 0) note(h, m, 3000, 64, "scalable_posix_memalign"); else { if (rc != ENOMEM) vf_fail("posix_memalign error code %d", rc); if (!raw_failed) vf_fail("posix_memalign failed without a refused raw request"); } }
    if (!h.live.empty()) { auto it = h.live.begin(); std::advance(it, h.live.size() / 2); unsigned char* p = it->first; ShadowHeap::Blk b = it->second; void* q = scalable_realloc(p, b.n * 3 + 5000);
        if (q) { h.live.erase(p); if (!ShadowHeap::intact((unsigned char*)q, b.n, b.pat, b.n)) vf_fail("realloc lost data"); h.add(q, b.n * 3 + 5000, 0, "scalable_realloc"); } else { nulls++; if (!raw_failed) vf_fail("realloc failed without a refused raw request"); if (!ShadowHeap::intact(p, b.n, b.pat)) vf_fail("failed realloc damaged the block"); } }
    h.check_all("after realloc");
}
static void history_pool(ShadowHeap& h, rml::MemoryPool* pool, int id) {
    for (int i = 0; i < 30; i++) { void* p = rml::pool_malloc(pool, 64); if (p && !inside(id, p, 64)) vf_fail("pool block outside its raw memory"); note(h, p, 64, 16, "pool_malloc"); }
    for (int i = 0; i < 3; i++) { void* p = rml::pool_malloc(pool, 9000); if (p && !inside(id, p, 9000)) vf_fail("pool block outside its raw memory"); note(h, p, 9000, 16, "pool_malloc"); }
    { void* p = rml::pool_malloc(pool, 2000000); if (p && !inside(id, p, 2000000)) vf_fail("pool block outside its raw memory"); note(h, p, 2000000, 16, "pool_malloc"); }
    { void* p = rml::pool_aligned_malloc(pool, 700, 1024); if (p && !inside(id, p, 700)) vf_fail("pool block outside its raw memory"); note(h, p, 700, 1024, "pool_aligned_malloc"); }
    // pool_realloc: growing and shrinking small, large (>= 1 MB: the default pool would remap such a block in place) and huge blocks
    for (size_t from : {(size_t)300, (size_t)9000, (size_t)1500000, (size_t)2000000}) for (size_t to : {from * 3 + 4096, from / 2}) {
        unsigned char* p = (unsigned char*)rml::pool_malloc(pool, from); if (!p) { nulls++; if (!raw_failed && !allow_null) vf_fail("pool_malloc(%zu) failed although no raw request was refused", from); continue; }
        if (!inside(id, p, from)) vf_fail("pool block outside its raw memory"); ShadowHeap::fill(p, from, 0x77);
        unsigned char* q = (unsigned char*)rml::pool_realloc(pool, p, to);
        if (!q) { nulls++; if (!raw_failed && !allow_null) vf_fail("pool_realloc(%zu -> %zu) failed although no raw request was refused", from, to); if (!ShadowHeap::intact(p, from, 0x77)) vf_fail("failed pool_realloc damaged the block"); note(h, p, from, 16, "pool_malloc"); continue; }
        if (!inside(id, q, to)) vf_fail("pool_realloc(%zu -> %zu) returned a block outside the pool's raw memory", from, to);
        if (!ShadowHeap::intact(q, from, 0x77, std::min(from, to))) vf_fail("pool_realloc(%zu -> %zu) lost data", from, to);
        if (rml::pool_identify(q) != pool) vf_fail("pool_identify names the wrong pool after pool_realloc");
        note(h, q, to, 16, "pool_realloc"); }
    h.check_all("pool history");
    for (auto& kv : h.live) if (inside(id, kv.first, 1) && rml::pool_identify(kv.first) != pool) vf_fail("pool_identify names the wrong pool");
}
static void scenario() {
    const char* k = vf_param("kind", "default"); ShadowHeap h; vf_liveness(1);   // every allocator call must return: an execution that reaches the step horizon is a hang
    if (streq(k, "default")) {
        void* warm = scalable_malloc(16); scalable_free(warm);          // library initialisation outside the window
        vf_window(1); armed = true; history_default(h); armed = false; vf_window(0);
        // memory is available again: everything must work, live blocks intact
        void* z = scalable_malloc(64); void* z2 = scalable_malloc(3000000); if (!z || !z2) vf_fail("allocation still fails after raw memory became available again"); h.add(z, 64, 16, "malloc"); h.add(z2, 3000000, 16, "malloc"); h.check_all("recovery");
        while (!h.live.empty()) { unsigned char* p = h.live.begin()->first; h.take(p, "free"); scalable_free(p); }
        vf_outcome("raw=%d failed=%d nulls=%d", raw_calls, raw_failed, nulls); }
    else if (streq(k, "pool") || streq(k, "fixed")) { bool fixed = streq(k, "fixed");
        rml::MemPoolPolicy pol(raw_alloc, raw_free, 0, fixed, false); rml::MemoryPool* pool = nullptr;
        allow_null = fixed;
        vf_window(1); armed = true; rml::MemPoolError err = rml::pool_create_v1(1, &pol, &pool);   // fixed pool: its single raw request may be refused too
        if (err != rml::POOL_OK) { armed = false; vf_window(0); if (!raw_failed) vf_fail("pool_create_v1 failed (%d) without a refused raw request", (int)err); vf_outcome("create failed"); return; }
        history_pool(h, pool, 1); armed = false; vf_window(0);
        if (fixed && env[1].calls > 1) vf_fail("fixed pool called the raw allocator %d times (a fixed pool asks once, also when the request was refused)", env[1].calls);
        void* z = rml::pool_malloc(pool, 100); if (!z && !fixed) vf_fail("pool allocation still fails after raw memory became available again"); if (z) h.add(z, 100, 16, "pool_malloc"); h.check_all("recovery");
        if (!rml::pool_reset(pool)) vf_fail("pool_reset failed"); h.live.clear();
        void* y = rml::pool_malloc(pool, 5000); if (y) { if (!inside(1, y, 5000)) vf_fail("block after reset outside raw memory"); }
        if (!fixed) {   // blocks of 4 MB and more around a reset: the bins of the largest size class must be emptied by reset like all others
            ShadowHeap h2; for (int round = 0; round < 2; round++) { std::vector<void*> big;
                for (int i = 0; i < 3; i++) { void* p = rml::pool_malloc(pool, (5u << 20) + i * 4096); if (!p) vf_fail("pool_malloc(5 MB) failed after reset"); if (!inside(1, p, 5u << 20)) vf_fail("5 MB block outside the pool's raw memory"); h2.add(p, 5u << 20, 16, "pool_malloc"); big.push_back(p); }
                h2.check_all("5 MB blocks"); h2.take(big[1], "pool_free"); rml::pool_free(pool, big[1]); void* q = rml::pool_malloc(pool, 6u << 20); if (!q) vf_fail("pool_malloc(6 MB) failed"); if (!inside(1, q, 6u << 20)) vf_fail("6 MB block outside the pool's raw memory"); h2.add(q, 6u << 20, 16, "pool_malloc"); h2.check_all("after reuse");
                if (!rml::pool_reset(pool)) vf_fail("pool_reset failed"); h2.live.clear(); } }
        if (!rml::pool_destroy(pool)) vf_fail("pool_destroy failed"); for (auto& r : env[1].regions) if (r.live) vf_fail("pool_destroy kept raw region %p", (void*)r.p);
        vf_outcome("raw=%d failed=%d nulls=%d", raw_calls, raw_failed, nulls); }
    else if (streq(k, "poolorphan")) {   // a thread allocated small objects in the pool and ended; its slabs are orphaned, another thread frees them; then raw memory is refused
        rml::MemPoolPolicy pol(raw_alloc, raw_free); rml::MemoryPool* pool = nullptr; if (rml::pool_create_v1(1, &pol, &pool) != rml::POOL_OK) vf_fail("pool_create failed");
        int keep = (int)vf_param_int("keep", 0); static void* pa[64]; int na = 40;
        int t = spawn([&] { for (int i = 0; i < na; i++) { pa[i] = rml::pool_malloc(pool, 256); if (!pa[i]) vf_fail("pool_malloc failed in the setup"); memset(pa[i], 0x5a, 256); } /* a size class the history below does not use, so the orphaned slab is not adopted */ doThreadShutdownNotification(nullptr, false); });
        vf_join(t);
        for (int i = keep; i < na; i++) rml::pool_free(pool, pa[i]);          // freed by a different thread than the (finished) owner
        vf_window(1); armed = true; history_pool(h, pool, 1); armed = false; vf_window(0);
        for (int i = 0; i < keep; i++) for (int j = 0; j < 256; j++) if (((unsigned char*)pa[i])[j] != 0x5a) vf_fail("a live block of the finished thread was damaged");
        void* z = rml::pool_malloc(pool, 100); if (!z) vf_fail("pool allocation still fails after raw memory became available again"); h.add(z, 100, 16, "pool_malloc"); h.check_all("recovery");
        if (!rml::pool_destroy(pool)) vf_fail("pool_destroy failed"); for (auto& r : env[1].regions) if (r.live) vf_fail("pool_destroy kept raw region %p", (void*)r.p);
        vf_outcome("raw=%d failed=%d nulls=%d", raw_calls, raw_failed, nulls); }
    else if (streq(k, "poolreset_tls")) {   // threads used the pool and ended BEFORE pool_reset: the reset hands every byte of the pool's raw memory back to the pool's
        // backend, so nothing the finished threads left behind (their per-thread bookkeeping records) may be handed to a later thread - it would share memory with user blocks.
        rml::MemPoolPolicy pol(raw_alloc, raw_free); rml::MemoryPool* pool = nullptr; if (rml::pool_create_v1(1, &pol, &pool) != rml::POOL_OK) vf_fail("pool_create failed");
        int nthr = (int)vf_param_int("threads", 2);
        for (int i = 0; i < nthr; i++) { int t = spawn([&] { void* p = rml::pool_malloc(pool, 256); if (!p) vf_fail("pool_malloc failed in the setup"); memset(p, 0x5a, 256); if (vf_param_int("free", 1)) rml::pool_free(pool, p); doThreadShutdownNotification(nullptr, false); }); vf_join(t); }
        if (!rml::pool_reset(pool)) vf_fail("pool_reset failed");
        vf_window(1); armed = true; history_pool(h, pool, 1); armed = false; vf_window(0);
        // a further thread works in the pool while the main thread's blocks are live
        { int t = spawn([&] { ShadowHeap h3; for (int i = 0; i < 40; i++) { void* p = rml::pool_malloc(pool, 48 + 40 * (i % 5)); if (!p) vf_fail("pool_malloc failed in a new thread after pool_reset although raw memory is available"); if (!inside(1, p, 48)) vf_fail("pool block outside its raw memory"); h3.add(p, 48 + 40 * (i % 5), 16, "pool_malloc(new thread)"); }
                h3.check_all("new thread after pool_reset"); while (!h3.live.empty()) { unsigned char* p = h3.live.begin()->first; h3.take(p, "pool_free"); rml::pool_free(pool, p); } doThreadShutdownNotification(nullptr, false); }); vf_join(t); }
        h.check_all("after a new thread used the reset pool");
        for (int i = 0; i < 60; i++) { void* p = rml::pool_malloc(pool, 64 + 16 * (i % 7)); if (!p) vf_fail("pool allocation fails after raw memory became available again"); if (!inside(1, p, 64)) vf_fail("pool block outside its raw memory"); h.add(p, 64 + 16 * (i % 7), 16, "pool_malloc"); } h.check_all("recovery");
        if (!rml::pool_destroy(pool)) vf_fail("pool_destroy failed"); for (auto& r : env[1].regions) if (r.live) vf_fail("pool_destroy kept raw region %p", (void*)r.p);
        vf_outcome("raw=%d failed=%d nulls=%d", raw_calls, raw_failed, nulls); }
    else if (streq(k, "twopools")) { rml::MemPoolPolicy pol(raw_alloc, raw_free); rml::MemoryPool *a = nullptr, *b = nullptr;
        if (rml::pool_create_v1(1, &pol, &a) != rml::POOL_OK || rml::pool_create_v1(2, &pol, &b) != rml::POOL_OK) vf_fail("pool_create failed");
        vf_window(1); armed = true; ShadowHeap ha, hb;
        for (int i = 0; i < 12; i++) { void* p = rml::pool_malloc(a, 200); if (p) { if (!inside(1, p, 200)) vf_fail("block of pool A outside A's raw memory"); ha.add(p, 200, 16, "pool_malloc(A)"); if (rml::pool_identify(p) != a) vf_fail("pool_identify(A block) wrong"); }
                                       void* q = rml::pool_malloc(b, 9000); if (q) { if (!inside(2, q, 9000)) vf_fail("block of pool B outside B's raw memory"); hb.add(q, 9000, 16, "pool_malloc(B)"); if (rml::pool_identify(q) != b) vf_fail("pool_identify(B block) wrong"); } }
        armed = false; vf_window(0); ha.check_all("A"); hb.check_all("B");
        std::vector<bool> blive; for (auto& r : env[2].regions) blive.push_back(r.live);
        if (!rml::pool_destroy(a)) vf_fail("pool_destroy(A) failed"); for (auto& r : env[1].regions) if (r.live) vf_fail("destroy(A) kept a region"); for (size_t i = 0; i < blive.size(); i++) if (blive[i] && !env[2].regions[i].live) vf_fail("destroying pool A returned memory of pool B");
        hb.check_all("B after destroy(A)"); if (!rml::pool_destroy(b)) vf_fail("pool_destroy(B) failed"); for (auto& r : env[2].regions) if (r.live) vf_fail("destroy(B) kept a region");
        vf_outcome("raw=%d failed=%d", raw_calls, raw_failed); }
    else if (streq(k, "backref") || streq(k, "poolbackref")) {
        // n live large objects (each needs a back-reference slot: the 4 initial leaves hold about 8160) so that the back-reference table
        // has to be extended inside the window; from an explorer-chosen raw request on, every request of the DEFAULT pool is refused
        // (poolbackref: the objects come from a memory pool whose own raw callback always succeeds - the table lives in the default pool)
        bool inpool = streq(k, "poolbackref"); int n = (int)vf_param_int("n", 8400); size_t sz = (size_t)vf_param_int("size", 9000);
        rml::MemPoolPolicy pol(raw_alloc, raw_free); rml::MemoryPool* pool = nullptr; if (inpool && rml::pool_create_v1(1, &pol, &pool) != rml::POOL_OK) vf_fail("pool_create failed");
        void* warm = scalable_malloc(16); scalable_free(warm);
        auto alloc = [&]() { return inpool ? rml::pool_malloc(pool, sz) : scalable_malloc(sz); };
        std::vector<unsigned char*> v; v.reserve(n + 8); int after = 0;
        persist = true; pool_raw_faults = false; vf_window(1); armed = true; vf_liveness(1);   // an allocation call that never returns is a violation
        std::vector<void*> drained[5]; static const size_t DS[5] = {1u << 20, 60000, 8000, 1000, 48};
        if (inpool) {   // the default pool is out of memory from the start: drain what it still caches, then give back 0-2 chunks of 60000 bytes by choice
            failing = true; for (int d = 0; d < 5; d++) for (int i = 0; i < 200000; i++) { void* p = scalable_malloc(DS[d]); if (!p) break; drained[d].push_back(p); }
            int back = vf_choose(3); for (int i = 0; i < back && !drained[1].empty(); i++) { scalable_free(drained[1].back()); drained[1].pop_back(); } raw_failed++; }
        for (int i = 0; i < n && after < 3; i++) { unsigned char* p = (unsigned char*)alloc();
            if (!p) { nulls++; after++; if (!raw_failed) vf_fail("allocation %d of %zu bytes failed although no raw memory request was refused", i, sz); continue; }
            if ((uintptr_t)p & 15) vf_fail("block %p not aligned", (void*)p); if (inpool && !inside(1, p, sz)) vf_fail("pool block outside the pool's raw memory");
            memcpy(p, &i, sizeof i); memcpy(p + sz - sizeof i, &i, sizeof i); v.push_back(p); }
        armed = false; vf_liveness(0); vf_window(0); failing = false;
        { unsigned char* z = (unsigned char*)alloc(); if (!z) vf_fail("allocation still fails after raw memory became available again"); int m = -1; memcpy(z, &m, sizeof m); memcpy(z + sz - sizeof m, &m, sizeof m); v.push_back(z); }
        std::vector<unsigned char*> sorted = v; std::sort(sorted.begin(), sorted.end()); for (size_t i = 1; i < sorted.size(); i++) if (sorted[i - 1] + sz > sorted[i]) vf_fail("blocks %p and %p overlap", (void*)sorted[i - 1], (void*)sorted[i]);
        for (size_t i = 0; i + 1 < v.size(); i++) { int a, b; memcpy(&a, v[i], sizeof a); memcpy(&b, v[i] + sz - sizeof b, sizeof b); if (a != b) vf_fail("contents of live block %zu were modified", i); }
        for (unsigned char* p : v) { if (inpool) rml::pool_free(pool, p); else scalable_free(p); }
        for (int d = 0; d < 5; d++) for (void* p : drained[d]) scalable_free(p);
        if (inpool) { if (!rml::pool_destroy(pool)) vf_fail("pool_destroy failed"); for (auto& r : env[1].regions) if (r.live) vf_fail("pool_destroy kept raw region %p", (void*)r.p); }
        vf_outcome("raw=%d failed=%d nulls=%d live=%zu", raw_calls, raw_failed, nulls, v.size()); }
    else if (streq(k, "extreme")) { const size_t M = ~(size_t)0; int n = 0;
        for (size_t s : {M, M - 1, M - 7, M - 15, M - 63, M - 4095, M / 2 + 1, M - (1ul << 21), (size_t)1 << 63, ((size_t)1 << 63) - 1, (size_t)1 << 62}) {
            void* p = scalable_malloc(s); if (p) vf_fail("scalable_malloc(%zu) returned a block", s); n++;
            for (size_t a : {(size_t)16, (size_t)4096, (size_t)1 << 30, (size_t)1 << 62, (size_t)1 << 63}) { p = scalable_aligned_malloc(s, a); if (p) vf_fail("scalable_aligned_malloc(%zu,%zu) returned a block", s, a); void* m = (void*)1; int rc = scalable_posix_memalign(&m, a, s); if (rc == 0) vf_fail("posix_memalign(%zu,%zu) succeeded", a, s); n += 2; }
            void* q = scalable_malloc(100); memset(q, 7, 100); void* r = scalable_realloc(q, s); if (r) vf_fail("scalable_realloc(%zu) returned a block", s); for (int i = 0; i < 100; i++) if (((char*)q)[i] != 7) vf_fail("failed realloc damaged the block"); scalable_free(q); n++;
            // the same from blocks of every kind (slab object, large object, a block >= 1 MB that lives alone in its region and is grown by remapping it)
            for (size_t from : {(size_t)3000, (size_t)100000, (size_t)2 << 20, (size_t)5 << 20}) { unsigned char* b = (unsigned char*)scalable_malloc(from); if (!b) vf_fail("scalable_malloc(%zu) failed", from); ShadowHeap::fill(b, from, 0x3c);
                void* r2 = scalable_realloc(b, s); if (r2) vf_fail("scalable_realloc(block of %zu bytes, %zu) returned a block (msize %zu)", from, s, scalable_msize(r2));
                if (!ShadowHeap::intact(b, from, 0x3c)) vf_fail("failed realloc damaged the block of %zu bytes", from);
                r2 = scalable_aligned_realloc(b, s, 64); if (r2) vf_fail("scalable_aligned_realloc(block of %zu bytes, %zu, 64) returned a block", from, s);
                if (!ShadowHeap::intact(b, from, 0x3c)) vf_fail("failed aligned_realloc damaged the block of %zu bytes", from); scalable_free(b); n++; } }
        for (auto pr : {std::pair<size_t, size_t>{M, 2}, {M / 2 + 1, 2}, {(size_t)1 << 32, (size_t)1 << 32}, {(size_t)1 << 33, (size_t)1 << 31}, {M / 3, 4}, {3, M / 2}}) { void* p = scalable_calloc(pr.first, pr.second); if (p) vf_fail("scalable_calloc(%zu,%zu) overflow not detected", pr.first, pr.second); n++; }
        for (size_t a : {(size_t)0, (size_t)3, (size_t)24, (size_t)1 << 63}) { void* p = scalable_aligned_malloc(64, a); if (p && (a == 0 || (a & (a - 1)))) vf_fail("aligned_malloc accepted alignment %zu", a); if (p) scalable_aligned_free(p); n++; }
        { void* p = scalable_aligned_malloc(0, 64); if (p) vf_fail("aligned_malloc(0) returned a block"); void* z = scalable_malloc(64); if (!z) vf_fail("allocator unusable after extreme requests"); scalable_free(z); }
        vf_outcome("extreme requests=%d", n); }
    else if (streq(k, "cxx")) { void* warm = scalable_malloc(16); scalable_free(warm); int thrown = 0, ok = 0;
        vf_window(1); armed = true;
        try { tbb::scalable_allocator<char> a; char* p = a.allocate(30000000); ok++; a.deallocate(p, 30000000); } catch (std::bad_alloc&) { thrown++; }
        try { tbb::scalable_allocator<long> a; long* p = a.allocate(~(size_t)0 / 16); ok++; a.deallocate(p, 1); vf_fail("absurd allocate succeeded"); } catch (std::bad_alloc&) { thrown++; } catch (std::bad_array_new_length&) { thrown++; }
        armed = false; vf_window(0); if (raw_failed && ok == 1 && thrown != 1) vf_fail("inconsistent"); vf_outcome("ok=%d thrown=%d", ok, thrown); }
    else vf_fail("unknown kind");
}
int main(int argc, char** argv) { return vf_main(argc, argv, scenario); }
