// VF-BUILD: tbb
// C03 - an exception thrown by user code surfaces exactly once at the wait, after the group stopped; nothing runs or starts
// afterwards; no exception is swallowed or escapes on a worker; the group is reusable; library objects are destroyed once.
// Real scheduler under vsched.   -p kind=tg|nested|pfor|pfor_auto|reduce_body|reduce_join|reduce_split|foreach|invoke|pipeline|graph|execute
// -p mask=M : the i-th body invocation (global order of entry) throws iff bit i of M is set.   -p P=2
#include <oneapi/tbb/task_group.h>
#include <oneapi/tbb/task_arena.h>
#include <oneapi/tbb/global_control.h>
#include <oneapi/tbb/parallel_for.h>
#include <oneapi/tbb/parallel_reduce.h>
#include <oneapi/tbb/parallel_for_each.h>
#include <oneapi/tbb/parallel_invoke.h>
#include <oneapi/tbb/parallel_pipeline.h>
#include <oneapi/tbb/flow_graph.h>
#include "vfh.h"
#include <set>
using namespace vfh;
static int item_live = 0, item_made = 0;
static int booms = 0;   // live exception objects: a captured exception that is overwritten by a second thrower's, or never released, stays alive
struct Boom { int id; explicit Boom(int i) : id(i) { ++booms; } Boom(const Boom& o) : id(o.id) { ++booms; } ~Boom() { --booms; } };
static int mask = 0, inv = 0, live = 0, started_after = 0, caught_at = -1; static std::set<int> thrown; static bool returned = false; static int objs = 0;
static void body() { int me = inv++; if (returned) vf_fail("a body started after the waiting call had returned or thrown"); live++; vf_point(); if (mask >> me & 1) { thrown.insert(me); live--; throw Boom(me); } vf_point(); live--; }
struct Obj { Obj() { objs++; } Obj(const Obj&) { objs++; } ~Obj() { objs--; } };
template <class F> static void guarded(const char* what, F f) {   // runs the waiting call, checks the exception contract
    returned = false; bool got = false; int id = -1;
    try { f(); } catch (Boom& b) { got = true; id = b.id; } catch (...) { vf_fail("%s threw something that no body threw", what); }
    returned = true;
    if (live != 0) vf_fail("%s %s while %d bodies were still running", what, got ? "threw" : "returned", live);
    if (got) { if (!thrown.count(id)) vf_fail("%s rethrew exception %d which was never thrown", what, id); }
    else if (!thrown.empty()) vf_fail("%s returned normally although body %d threw (exception swallowed)", what, *thrown.begin());
    caught_at = id;
}
static void scenario() {
    const char* k = vf_param("kind", "tg"); int P = (int)vf_param_int("P", 2); mask = (int)vf_param_int("mask", 1);
    tbb::global_control gc(tbb::global_control::max_allowed_parallelism, P); tbb::task_arena ar(P); int warm = 0;
    ar.execute([&] { tbb::task_group tg; tg.run([&] { warm++; }); tg.run([&] { warm++; }); tg.wait(); });
    vf_liveness(1); vf_window(1);
    ar.execute([&] {
        if (streq(k, "tg")) { tbb::task_group tg; guarded("task_group::wait", [&] { Obj o; tg.run([o] { body(); }); tg.run([o] { body(); }); tg.run([o] { body(); }); tg.wait(); });
            int before = inv; mask = 0; thrown.clear(); guarded("task_group::wait (reuse)", [&] { tg.run([] { body(); }); tg.wait(); }); if (inv != before + 1) vf_fail("task_group not reusable after an exception: the new task did not run"); }
        else if (streq(k, "nested")) { tbb::task_group outer; guarded("outer wait", [&] { outer.run([&] { tbb::task_group inner; inner.run([] { body(); }); inner.run([] { body(); }); inner.wait(); }); outer.run([] { body(); }); outer.wait(); }); }
        else if (streq(k, "pfor")) { guarded("parallel_for", [&] { Obj o; tbb::parallel_for(tbb::blocked_range<int>(0, 4, 1), [o](const tbb::blocked_range<int>&) { body(); }, tbb::simple_partitioner()); });
            mask = 0; thrown.clear(); int before = inv; guarded("parallel_for (again)", [&] { tbb::parallel_for(0, 2, [](int) { body(); }); }); if (inv != before + 2) vf_fail("second parallel_for did not run all bodies"); }
        else if (streq(k, "pfor_auto")) { guarded("parallel_for", [&] { tbb::parallel_for(0, 5, [](int) { body(); }); }); }
        else if (streq(k, "pfor_split") || streq(k, "pfor_bodycopy")) {   // the Range's splitting constructor / the Body's copy constructor throws while parallel_for builds its task tree
            struct RG { int b, e; RG(int x, int y) : b(x), e(y) {} RG(const RG&) = default; RG(RG& r, tbb::split) : b((r.b + r.e) / 2), e(r.e) { body(); r.e = b; } bool empty() const { return b >= e; } bool is_divisible() const { return e - b > 1; } };
            struct BD { Obj o; bool thrower; BD(bool t) : thrower(t) {} BD(const BD& x) : o(x.o), thrower(x.thrower) { if (thrower) body(); } void operator()(const RG&) const { vf_point(); } void operator()(const tbb::blocked_range<int>&) const { vf_point(); } };
            int part = (int)vf_param_int("part", 0);
            if (streq(k, "pfor_split")) guarded("parallel_for", [&] { BD bd(false); if (part == 0) tbb::parallel_for(RG(0, 4), bd, tbb::simple_partitioner()); else if (part == 1) tbb::parallel_for(RG(0, 4), bd, tbb::auto_partitioner()); else tbb::parallel_for(RG(0, 4), bd, tbb::static_partitioner()); });
            else guarded("parallel_for", [&] { BD bd(true); if (part == 0) tbb::parallel_for(tbb::blocked_range<int>(0, 4, 1), bd, tbb::simple_partitioner()); else tbb::parallel_for(tbb::blocked_range<int>(0, 4, 1), bd, tbb::auto_partitioner()); });
            mask = 0; thrown.clear(); int before = inv; guarded("parallel_for (again)", [&] { tbb::parallel_for(0, 2, [](int) { body(); }); }); if (inv != before + 2) vf_fail("a later parallel_for did not run all bodies"); }
        else if (streq(k, "reduce_body")) { guarded("parallel_reduce", [&] { tbb::parallel_reduce(tbb::blocked_range<int>(0, 4, 1), 0, [](const tbb::blocked_range<int>& r, int v) { body(); return v + (int)r.size(); }, [](int a, int b) { return a + b; }, tbb::simple_partitioner()); }); }
        else if (streq(k, "reduce_join")) { guarded("parallel_reduce", [&] { tbb::parallel_reduce(tbb::blocked_range<int>(0, 4, 1), 0, [](const tbb::blocked_range<int>& r, int v) { return v + (int)r.size(); }, [](int a, int b) { body(); return a + b; }, tbb::simple_partitioner()); }); }
        else if (streq(k, "reduce_split")) { struct B { Obj o; int s = 0; B() {} B(B&, tbb::split) { body(); } void operator()(const tbb::blocked_range<int>& r) { s += (int)r.size(); } void join(B& o2) { s += o2.s; } };
            guarded("parallel_reduce", [&] { B b; tbb::parallel_reduce(tbb::blocked_range<int>(0, 4, 1), b, tbb::simple_partitioner()); }); }
        else if (streq(k, "foreach")) { std::vector<int> v{0, 1}; guarded("parallel_for_each", [&] { tbb::parallel_for_each(v.begin(), v.end(), [](int x, tbb::feeder<int>& f) { body(); if (x < 2) f.add(x + 2); }); }); }
        else if (streq(k, "invoke")) { guarded("parallel_invoke", [&] { tbb::parallel_invoke([] { body(); }, [] { body(); }, [] { body(); }); }); }
        else if (streq(k, "pipeline")) { int produced = 0; guarded("parallel_pipeline", [&] { tbb::parallel_pipeline(2,
                tbb::make_filter<void, int>(tbb::filter_mode::serial_in_order, [&](tbb::flow_control& fc) -> int { if (produced == 3) { fc.stop(); return 0; } body(); return produced++; }) &
                tbb::make_filter<int, int>(tbb::filter_mode::parallel, [](int x) { body(); return x; }) &
                tbb::make_filter<int, void>(tbb::filter_mode::serial_out_of_order, [](int) { body(); })); }); }
        else if (streq(k, "pipeline_obj")) {   // items that travel in library-allocated tokens (not trivially copyable): after an exception every item the filters produced is destroyed exactly once
            struct Item { int v; Item(int x = 0) : v(x) { ++item_live; ++item_made; } Item(const Item& o) : v(o.v) { ++item_live; ++item_made; } Item(Item&& o) noexcept : v(o.v) { ++item_live; ++item_made; } ~Item() { if (--item_live < 0) vf_fail("an item of the pipeline was destroyed twice"); } Item& operator=(const Item&) = default; };
            int produced = 0, nitems = (int)vf_param_int("items", 4), ntok = (int)vf_param_int("tokens", 3); item_live = item_made = 0;
            guarded("parallel_pipeline", [&] { tbb::parallel_pipeline(ntok,
                tbb::make_filter<void, Item>(tbb::filter_mode::serial_in_order, [&](tbb::flow_control& fc) -> Item { if (produced == nitems) { fc.stop(); return Item(-1); } body(); return Item(produced++); }) &
                tbb::make_filter<Item, Item>(tbb::filter_mode::parallel, [](Item x) { body(); return x; }) &
                tbb::make_filter<Item, void>(tbb::filter_mode::serial_in_order, [](Item) { body(); })); });
            if (item_live != 0) vf_fail("%d of the %d item objects that travelled through the pipeline were never destroyed after the call %s", item_live, item_made, thrown.empty() ? "returned" : "rethrew the exception"); }
        else if (streq(k, "foreach_input")) {   // parallel_for_each over INPUT iterators: the items are copied into blocks by the library; the copythrow-th copy of an item throws
            static int copies, copythrow; copies = 0; copythrow = (int)vf_param_int("copythrow", 1);
            struct It { int v; It(int x = 0) : v(x) { ++item_live; } It(const It& o) : v(o.v) { if (++copies == copythrow) { thrown.insert(100 + copies); throw Boom(100 + copies); } ++item_live; } It(It&& o) : v(o.v) { ++item_live; } ~It() { --item_live; } It& operator=(const It&) = default; };
            struct InIt { using iterator_category = std::input_iterator_tag; using value_type = It; using difference_type = std::ptrdiff_t; using pointer = const It*; using reference = const It&; int pos; mutable It cur; InIt(int p) : pos(p), cur(p) {}
                reference operator*() const { cur.v = pos; return cur; } InIt& operator++() { ++pos; return *this; } InIt operator++(int) { InIt t(pos); ++pos; return t; } bool operator==(const InIt& o) const { return pos == o.pos; } bool operator!=(const InIt& o) const { return pos != o.pos; } };
            item_live = 0; int n = (int)vf_param_int("items", 5);
            { guarded("parallel_for_each(input iterators)", [&] { tbb::parallel_for_each(InIt(0), InIt(n), [](const It&) { body(); }); }); }
            if (item_live != 2 * 0 && item_live != 0) vf_fail("%d item copies made by parallel_for_each were never destroyed", item_live); }
        else if (streq(k, "graph")) { using namespace tbb::flow; graph g; function_node<int, int> f(g, unlimited, [](int x) { body(); return x; }); function_node<int, continue_msg> s(g, serial, [](int) { body(); return continue_msg(); }); make_edge(f, s);
            guarded("graph::wait_for_all", [&] { f.try_put(1); f.try_put(2); g.wait_for_all(); });
            if (!thrown.empty() && !g.is_cancelled()) vf_fail("graph not cancelled after an exception"); g.reset(); mask = 0; thrown.clear(); int before = inv; guarded("graph (after reset)", [&] { f.try_put(3); g.wait_for_all(); }); if (inv != before + 2) vf_fail("graph not reusable after reset"); }
        else if (streq(k, "same_arena")) {   // a body enters (task_arena::execute) the arena it already runs in, comes back, and throws later: the exception still belongs to its own group
            tbb::task_group tg; guarded("task_group::wait", [&] { tg.run([&] { ar.execute([] { vf_point(); }); body(); }); tg.run([&] { tbb::task_arena same{tbb::attach{}}; same.execute([] { vf_point(); }); body(); }); tg.run([] { body(); }); tg.wait(); });
            thrown.clear(); mask = (int)vf_param_int("mask2", 0) << inv;
            guarded("parallel_for", [&] { tbb::parallel_for(tbb::blocked_range<int>(0, 3, 1), [&](const tbb::blocked_range<int>&) { ar.execute([] { vf_point(); }); body(); }, tbb::simple_partitioner()); }); }
        else if (streq(k, "execute")) { tbb::task_arena inner(1); guarded("task_arena::execute", [&] { inner.execute([] { body(); tbb::task_group tg; tg.run([] { body(); }); tg.wait(); }); }); }
        else vf_fail("unknown kind");
    });
    vf_window(0); vf_liveness(0);
    if (objs != 0) vf_fail("%d copies of a body/argument object were not destroyed", objs);
    if (booms != 0) vf_fail("%d exception objects thrown by bodies are still alive after every group was waited for, reset or destroyed (a captured exception was overwritten by a second thrower's or never released)", booms);
    vf_outcome("inv=%d thrown=%zu caught=%d", inv, thrown.size(), caught_at);
}
int main(int argc, char** argv) { return vf_main(argc, argv, scenario); }
