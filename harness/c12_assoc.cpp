// VF-BUILD: tbb access
// C12 - concurrent unordered / ordered associative containers never lose or duplicate keys.
// -p kind=umap|uset|ummap|umset|omap|oset|ommap|omset|cmap (cmap = the real tbb::concurrent_map with its own generator)
// -p hash=id|const  -p pre=N (keys 100..100+N-1)  -p prekeys="3,5"  -p lv=0120 (skip-list levels, one digit per created node)
// -p prog="I7|I7|T"  ops: I<k> insert  M<k> emplace  F<k> find  C<k> count  N<k> contains  T full traversal  S traversal through a split range()
#include <oneapi/tbb/concurrent_unordered_map.h>
#include <oneapi/tbb/concurrent_unordered_set.h>
#include <oneapi/tbb/concurrent_map.h>
#include <oneapi/tbb/concurrent_set.h>
#include "vfh.h"
#include <set>
#include <list>
#include <map>
using namespace vfh;
static int g_hash = 0; static std::string g_lv = "1"; static size_t g_lvpos = 0;
// Keys are announced to the happens-before oracle (-hb): whoever reaches an element through the container (lookup, traversal, another
// insert comparing against it) must see the key its inserter wrote.
struct Key { int k; Key(int x = 0) : k(x) { vf_plain_write(&k); } Key(const Key& o) : k(o.k) { vf_plain_read(&o.k); vf_plain_write(&k); }
    Key(Key&& o) : k(o.k) { vf_plain_read(&o.k); vf_plain_write(&k); vf_plain_write(&o.k); o.k = -12345; }   /* a moved-from key no longer compares equal to its old value (like std::string): the library must not use it afterwards */
    Key& operator=(const Key& o) { vf_plain_read(&o.k); vf_plain_write(&k); k = o.k; return *this; } ~Key() { vf_plain_write(&k); }
    operator int() const { vf_plain_read(&k); return k; }
    bool operator<(const Key& o) const { vf_plain_read(&k); vf_plain_read(&o.k); return k < o.k; } bool operator==(const Key& o) const { vf_plain_read(&k); vf_plain_read(&o.k); return k == o.k; } };
typedef Key KT;
struct H { size_t operator()(const KT& key) const { int k = key; return g_hash == 0 ? (size_t)k : 5; } };
struct Gen { static constexpr std::size_t max_level = 32; std::size_t operator()() { size_t l = g_lv[g_lvpos % g_lv.size()] - (char)48; g_lvpos++; return l < 1 ? 1 : l; } };
using namespace tbb::detail::d2;
typedef concurrent_skip_list<map_traits<KT, int, std::less<KT>, Gen, std::allocator<std::pair<const KT, int>>, false>> OMap;
typedef concurrent_skip_list<map_traits<KT, int, std::less<KT>, Gen, std::allocator<std::pair<const KT, int>>, true>> OMMap;
typedef concurrent_skip_list<set_traits<KT, std::less<KT>, Gen, std::allocator<KT>, false>> OSet;
typedef concurrent_skip_list<set_traits<KT, std::less<KT>, Gen, std::allocator<KT>, true>> OMSet;
template <class C> struct IsMap { static const bool value = true; };
template <> struct IsMap<OSet> { static const bool value = false; }; template <> struct IsMap<OMSet> { static const bool value = false; };
template <> struct IsMap<tbb::concurrent_unordered_set<KT, H>> { static const bool value = false; }; template <> struct IsMap<tbb::concurrent_unordered_multiset<KT, H>> { static const bool value = false; };
template <class It> int keyof(It it, std::true_type) { return it->first; } template <class It> int keyof(It it, std::false_type) { return *it; }
inline bool succ(bool b) { return b; } template <class It> bool succ(const std::pair<It, bool>& p) { return p.second; } template <class It> bool succ(const It&) { return true; }
template <class C> bool do_insert(C& c, int k, int tag, std::true_type) { return succ(c.insert(std::make_pair(k, tag))); }
template <class C> bool do_insert(C& c, int k, int, std::false_type) { return succ(c.insert(k)); }
template <class C> bool do_emplace(C& c, int k, int tag, std::true_type) { return succ(c.emplace(k, tag)); }
template <class C> bool do_emplace(C& c, int k, int, std::false_type) { return succ(c.emplace(k)); }
template <class R> auto succ_nh(const R& r) -> decltype(r.inserted) { return r.inserted; }   // insert_return_type of unique containers
template <class It> bool succ_nh(const std::pair<It, bool>& r) { return r.second; }   // unique containers of this library return pair<iterator, bool>
template <class It> bool succ_nh(const It&, ...) { return true; }                         // multi containers return an iterator
enum { K_INS, K_FIND, K_COUNT };
static const char* const NAMES[] = {"insert", "find/contains", "count"};
struct SModel { std::multiset<long> s; bool multi;
    bool apply(const Op& o, bool chk) { switch (o.kind) {
        case K_INS: { bool fresh = multi || !s.count(o.arg); if (chk && (o.res != 0) != fresh) return false; if (fresh) s.insert(o.arg); return true; }
        case K_FIND: return !chk || (o.res != 0) == (s.count(o.arg) > 0);
        case K_COUNT: return !chk || (long)s.count(o.arg) == o.res; } return false; } };
template <class C> C* make_container(size_t buckets, std::true_type) { return new C(); }
template <class C> C* make_container(size_t buckets, std::false_type) { return buckets ? new C(buckets) : new C(); }
struct Trav { int thread; unsigned long t0, t1; std::vector<int> keys; };
// Ordered containers: the split constructor of a range takes my_begin->next(my_level - 1) as the new border without looking whether that
// node lies inside the range.  Checked here (through the private members, the harness is built with access to them) BEFORE the split is
// asked for, so that the situation is reported by its name instead of by the crash it leads to.
template <class R> auto split_point_inside(R& r, int) -> decltype(r.my_level, bool()) {
    auto* b = r.my_begin.my_node_ptr; auto* e = r.my_end.my_node_ptr; if (!b || !r.my_level) return true; auto* n = b->next(r.my_level - 1);
    if (n == nullptr) return e == nullptr;   /* null is the end of the whole list: a border only for a range that ends there (is_divisible() is false then) */
    for (auto* w = b->next(0); w != e && w != nullptr; w = w->next(0)) if (w == n) return true;
    return n == e; }
template <class R> bool split_point_inside(R&, long) { return true; }
template <class C, bool MULTI, bool ORDERED> void run() {
    typedef std::integral_constant<bool, IsMap<C>::value> ismap;
    // -p buckets=N (unordered kinds): the container is constructed with an explicit initial bucket count (1, 2, 4: below the default of 8)
    // -p keysfirst=1: prekeys are inserted BEFORE the pre filler keys, i.e. while the table still has its initial size
    C* cp = make_container<C>((size_t)vf_param_int("buckets", 0), std::integral_constant<bool, ORDERED>()); C& c = *cp; SModel m; m.multi = MULTI; Log log; std::vector<Trav> travs;
    long pre = vf_param_int("pre", 0); bool keysfirst = vf_param_int("keysfirst", 0) != 0;
    auto add_prekeys = [&] { for (const char* p = vf_param("prekeys", ""); *p;) { long k = strtol(p, (char**)&p, 10); do_insert(c, (int)k, 0, ismap()); m.s.insert(k); while (*p == ',') p++; } };
    if (keysfirst) add_prekeys();
    long pbase = vf_param_int("prebase", 100), pstride = vf_param_int("prestride", 1);   // e.g. 64/64: all filler keys fall into bucket 0 of every table size up to 64, so growth touches no other bucket
    for (long i = 0; i < pre; i++) { do_insert(c, (int)(pbase + i * pstride), 0, ismap()); m.s.insert(pbase + i * pstride); }
    if (!keysfirst) add_prekeys();
    std::multiset<long> initial = m.s;
    std::vector<std::string> progs(1); for (const char* p = vf_param("prog", "I7|I7|T"); *p; p++) { if (*p == '|') progs.emplace_back(); else progs.back() += *p; }
    // H<k>: insert(node_type&&) of a node that was extracted, before the window, from another container of the same type in which it was
    // followed by further nodes (an equivalent key for multi containers, k+1 and k+2 otherwise): an extracted node must not carry links
    // of its old container into the new one
    static C* src; src = new C(); std::vector<typename C::node_type> handles; std::vector<std::vector<int>> hidx(progs.size());
    for (size_t t = 0; t < progs.size(); t++) for (const char* p = progs[t].c_str(); *p;) { if (*p == ',') { p++; continue; } char ch = *p++; int k = (int)strtol(p, (char**)&p, 10);
        if (ch == 'H') { do_insert(*src, k, 90, ismap()); if (MULTI) do_insert(*src, k, 91, ismap()); do_insert(*src, k + 1, 92, ismap()); do_insert(*src, k + 2, 93, ismap());
            auto nh = src->unsafe_extract(src->find(k)); if (nh.empty()) vf_fail("setup: extract failed"); hidx[t].push_back((int)handles.size()); handles.push_back(std::move(nh)); } }
    std::vector<size_t> hpos(progs.size(), 0);
    vf_liveness(1);
    auto ids = gated((int)progs.size(), nullptr, [&](int t) {
        for (const char* p = progs[t].c_str(); *p;) { if (*p == ',') { p++; continue; } char ch = *p++; int k = (int)strtol(p, (char**)&p, 10); int id;
            switch (ch) {
            case 'H': { id = log.begin(K_INS, k); auto& nh = handles[hidx[t][hpos[t]++]]; bool ok = succ_nh(c.insert(std::move(nh))); log.end(id, ok); } break;
            case 'I': id = log.begin(K_INS, k); log.end(id, do_insert(c, k, t + 1, ismap())); break;
            case 'M': id = log.begin(K_INS, k); log.end(id, do_emplace(c, k, t + 1, ismap())); break;
            case 'F': { id = log.begin(K_FIND, k); auto it = c.find(k); bool f = it != c.end(); if (f && keyof(it, ismap()) != k) vf_fail("find(%d) returned an element with key %d", k, keyof(it, ismap())); log.end(id, f); } break;
            case 'N': id = log.begin(K_FIND, k); log.end(id, c.contains(k)); break;
            case 'C': id = log.begin(K_COUNT, k); log.end(id, (long)c.count(k)); break;
            case 'S': { Trav tr; tr.thread = vf_self(); tr.t0 = vf_stamp(); auto r = c.range(); typedef decltype(r) RT;   /* traversal through range(): split in two rounds where divisible, then the pieces are walked one after the other with scheduling points in between */
                std::list<RT> pieces; pieces.push_back(r);
                for (int round = 0; round < (int)vf_param_int("rounds", 2); round++) { for (auto pi = pieces.begin(); pi != pieces.end(); ++pi) if (pi->is_divisible()) { if (!split_point_inside(*pi, 0)) vf_fail("range() of an ordered container is divisible but its split point (the successor of its first node on the level of that node) lies outside the range: a node as tall as the first node was inserted into the piece after it had been split off");
                    auto nx = std::next(pi); pi = pieces.emplace(nx, *pi, tbb::split()); } vf_point(); }
                auto b0 = pieces.front().begin(); auto e0 = pieces.front().end(); vf_point();   /* the first piece fixes its bounds before the others look at theirs */
                bool first = true; for (auto& pc : pieces) { auto bb = first ? b0 : pc.begin(); auto ee = first ? e0 : pc.end(); first = false; size_t guard = 0; for (auto it = bb; it != ee; ++it) { tr.keys.push_back(keyof(it, ismap())); if (++guard > 200) vf_fail("a piece of a split range() does not end"); } vf_point(); }
                tr.t1 = vf_stamp(); travs.push_back(tr); } break;
            case 'T': { Trav tr; tr.thread = vf_self(); tr.t0 = vf_stamp(); for (auto it = c.begin(); it != c.end(); ++it) tr.keys.push_back(keyof(it, ismap())); tr.t1 = vf_stamp(); travs.push_back(tr); } break;
            default: vf_fail("bad op"); } } });
    open_window_and_join(ids);
    /* liveness stays on: the sequential phase that follows must terminate too */
    // traversal rules
    for (auto& tr : travs) {
        std::multiset<long> must = initial, may = initial;
        for (auto& o : log.ops) if (o.kind == K_INS) { if (o.done && o.res && o.t1 < tr.t0) must.insert(o.arg); if (o.t0 < tr.t1 && (!o.done || o.res)) may.insert(o.arg); }
        std::multiset<long> seen(tr.keys.begin(), tr.keys.end());
        for (long k : std::set<long>(seen.begin(), seen.end())) { if (seen.count(k) > may.count(k)) vf_fail("traversal saw key %ld %zu times but at most %zu such elements can exist", k, seen.count(k), may.count(k)); }
        for (long k : std::set<long>(must.begin(), must.end())) if (seen.count(k) < must.count(k)) vf_fail("traversal missed key %ld that was present before it began (saw %zu of %zu)", k, seen.count(k), must.count(k));
        if (ORDERED && !std::is_sorted(tr.keys.begin(), tr.keys.end())) vf_fail("ordered container traversed out of order");
    }
    // final contents, sequentially
    std::multiset<long> fin; std::vector<int> order; for (auto it = c.begin(); it != c.end(); ++it) { fin.insert(keyof(it, ismap())); order.push_back(keyof(it, ismap())); }
    if (ORDERED && !std::is_sorted(order.begin(), order.end())) vf_fail("final contents not in comparator order");
    std::multiset<long> expect = initial; for (auto& o : log.ops) if (o.kind == K_INS && o.res) expect.insert(o.arg);
    if (fin != expect) { std::string a, b; for (long k : fin) a += std::to_string(k) + ","; for (long k : expect) b += std::to_string(k) + ","; vf_fail("final contents {%s} differ from the union of successful inserts {%s}", a.c_str(), b.c_str()); }
    if (c.size() != fin.size()) vf_fail("size() %zu != %zu elements", c.size(), fin.size());
    for (long k : std::set<long>(expect.begin(), expect.end())) { auto er = c.equal_range((int)k); size_t n = 0; for (auto it = er.first; it != er.second; ++it) { if (keyof(it, ismap()) != k) vf_fail("equal_range(%ld) contains key %d", k, keyof(it, ismap())); if (++n > fin.size()) vf_fail("equal_range(%ld) does not terminate inside the container", k); }
        if (n != expect.count(k)) vf_fail("equal_range(%ld) holds %zu elements, %zu were inserted", k, n, expect.count(k)); }
    for (long k : std::set<long>(expect.begin(), expect.end())) { int id = log.begin(K_COUNT, k); log.end(id, (long)c.count((int)k)); id = log.begin(K_FIND, k); log.end(id, c.find((int)k) != c.end()); }
    // count() of a multi container is distance(equal_range(k)): the end of the range is fixed first and the elements are counted
    // afterwards, so an insert of ANOTHER key that lands behind the range while it is being counted is counted as well.  The property
    // does not promise an atomic count, so a count that overlaps inserts of other keys is only checked against bounds
    // (present-before <= result <= may-exist + overlapping inserts of other keys); every other count is checked exactly.
    if (MULTI) for (auto& c0 : log.ops) if (c0.kind == K_COUNT && c0.done) {
        long slack = 0, must = (long)initial.count(c0.arg), may = must;
        for (auto& o : log.ops) if (o.kind == K_INS) { bool overlaps = o.t0 < c0.t1 && (!o.done || o.t1 > c0.t0);
            if (o.arg != c0.arg) { if (overlaps) slack++; continue; }
            if (o.done && o.res && o.t1 < c0.t0) must++; if (o.t0 < c0.t1 && (!o.done || o.res)) may++; }
        if (slack > 0) { if (c0.res < must || c0.res > may + slack) vf_fail("count(%ld) returned %ld while between %ld and %ld such elements existed (plus %ld concurrent inserts of other keys)", c0.arg, c0.res, must, may, slack); c0.done = false; } }
    if (!linearizable(log.ops, m)) vf_fail("history is not linearizable to a %sset of keys: %s", MULTI ? "multi" : "", log.str(NAMES).c_str());
    for (auto& o : log.ops) vf_outcome("%c%ld ", "ifc"[o.kind], o.res); for (auto& tr : travs) vf_outcome("T%zu ", tr.keys.size());
}
static void scenario() {
    const char* k = vf_param("kind", "umap"); g_hash = streq(vf_param("hash", "id"), "id") ? 0 : 1; g_lv = vf_param("lv", "1"); g_lvpos = 0;
    if (streq(k, "umap")) run<tbb::concurrent_unordered_map<KT, int, H>, false, false>();
    else if (streq(k, "uset")) run<tbb::concurrent_unordered_set<KT, H>, false, false>();
    else if (streq(k, "ummap")) run<tbb::concurrent_unordered_multimap<KT, int, H>, true, false>();
    else if (streq(k, "umset")) run<tbb::concurrent_unordered_multiset<KT, H>, true, false>();
    else if (streq(k, "omap")) run<OMap, false, true>();
    else if (streq(k, "oset")) run<OSet, false, true>();
    else if (streq(k, "ommap")) run<OMMap, true, true>();
    else if (streq(k, "omset")) run<OMSet, true, true>();
    else if (streq(k, "cmap")) run<tbb::concurrent_map<KT, int>, false, true>();
    else vf_fail("unknown kind");
}
int main(int argc, char** argv) { return vf_main(argc, argv, scenario); }
