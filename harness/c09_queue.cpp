// VF-BUILD: tbb
// C09 - concurrent_queue / concurrent_bounded_queue are linearizable FIFO queues (DESIGN.md section 7, C09).
// Parameters (-p):  prog="P11,P12|P21,G|G,G"   thread programs separated by '|', ops separated by ','
//     P<v> push (blocking push for the bounded queue)   T<v> try_push   G try_pop   Q blocking pop
//     A    abort (repeated until every other thread returned)           C<n> set_capacity(n)
//   bounded=1 cap=N big=1 (136-byte elements: one per page)  pre=N (push+pop N items first: advances tickets/pages)
//   keep=N (N items in the queue when the window opens)  throwat=K (K-th element copy inside the window throws)
#include <oneapi/tbb/concurrent_queue.h>
#include "vfh.h"
#include <deque>
#include <sstream>
using namespace vfh;

static int g_copies = 0, g_throwat = 0; static bool g_arm = false;
struct Thrown { int v; };
template <int PAD> struct Elem {
    int v; char pad[PAD];
    Elem(int x = 0) : v(x) { memset(pad, 0x5a, PAD); }
    Elem(const Elem& o) : v(o.v) { memcpy(pad, o.pad, PAD); if (g_arm && ++g_copies == g_throwat) throw Thrown{v}; }
    Elem& operator=(const Elem& o) { v = o.v; return *this; }
};
enum { K_PUSH, K_TRYPUSH, K_TRYPOP, K_POP, K_ABORT, K_SETCAP };
static const char* const NAMES[] = {"push", "try_push", "try_pop", "pop", "abort", "set_capacity"};
static const long R_EMPTY = -1, R_ABORTED = -2, R_THREW = -3;

struct QModel { std::deque<long> q; long cap;
    bool apply(const Op& o, bool chk) {
        if (o.done && (o.res == R_ABORTED || o.res == R_THREW)) return true;
        switch (o.kind) {
        case K_PUSH: if ((long)q.size() >= cap) return false; q.push_back(o.arg); return true;
        case K_TRYPUSH: if (!chk) { if ((long)q.size() < cap) q.push_back(o.arg); return true; }
            if (o.res == 1) { if ((long)q.size() >= cap) return false; q.push_back(o.arg); return true; } return (long)q.size() >= cap;
        case K_TRYPOP: if (!chk) { if (!q.empty()) q.pop_front(); return true; }
            if (o.res == R_EMPTY) return q.empty(); if (q.empty() || q.front() != o.res) return false; q.pop_front(); return true;
        case K_POP: if (q.empty()) return false; if (chk && q.front() != o.res) return false; q.pop_front(); return true;
        case K_ABORT: return true;
        case K_SETCAP: cap = o.arg; return true; }
        return false; } };

struct Step { int kind; long arg; };
static std::vector<std::vector<Step>> parse(const char* s) {
    std::vector<std::vector<Step>> r(1);
    for (const char* p = s; *p;) {
        if (*p == '|') { r.emplace_back(); p++; continue; } if (*p == ',') { p++; continue; }
        char c = *p++; long a = strtol(p, (char**)&p, 10);
        switch (c) { case 'P': r.back().push_back({K_PUSH, a}); break; case 'T': r.back().push_back({K_TRYPUSH, a}); break; case 'G': r.back().push_back({K_TRYPOP, 0}); break;
            case 'Q': r.back().push_back({K_POP, 0}); break; case 'A': r.back().push_back({K_ABORT, 0}); break; case 'C': r.back().push_back({K_SETCAP, a}); break; default: fprintf(stderr, "bad prog\n"); exit(2); } }
    return r; }

template <class Q, class E, bool BOUNDED> struct Run {
    Q q; Log log; int finished = 0; int nthreads = 0;
    template <bool B = BOUNDED> typename std::enable_if<B, long>::type do_op(Step s, int me, bool& aborter) {
        E e;
        switch (s.kind) {
        case K_PUSH: try { q.push(E((int)s.arg)); return 0; } catch (tbb::user_abort&) { return R_ABORTED; } catch (Thrown&) { return R_THREW; }
        case K_TRYPUSH: try { return q.try_push(E((int)s.arg)) ? 1 : 0; } catch (Thrown&) { return R_THREW; }
        case K_TRYPOP: return q.try_pop(e) ? e.v : R_EMPTY;
        case K_POP: try { q.pop(e); return e.v; } catch (tbb::user_abort&) { return R_ABORTED; }
        case K_ABORT: aborter = true; q.abort(); return 0;
        case K_SETCAP: q.set_capacity(s.arg); return 0; }
        return 0; }
    template <bool B = BOUNDED> typename std::enable_if<!B, long>::type do_op(Step s, int me, bool& aborter) {
        E e;
        switch (s.kind) {
        case K_PUSH: try { q.push(E((int)s.arg)); return 0; } catch (Thrown&) { return R_THREW; }
        case K_TRYPOP: return q.try_pop(e) ? e.v : R_EMPTY;
        default: vf_fail("operation not available on concurrent_queue"); }
        return 0; }
    void thread_body(const std::vector<Step>& prog, int me) {
        for (auto s : prog) { bool aborter = false; int i = log.begin(s.kind, s.arg); long r = do_op(s, me, aborter); log.end(i, r);
            if (aborter) { finished++; while (finished < nthreads) { do_abort(); vf_yield(); } finished--; } }
        finished++; }
    void go() {
        auto progs = parse(vf_param("prog", "P11,P12|P21,G|G,G")); nthreads = (int)progs.size();
        long pre = vf_param_int("pre", 0), keep = vf_param_int("keep", 0), cap = vf_param_int("cap", BOUNDED ? 1 : (1l << 40));
        bool aborter = false;
        for (long i = 0; i < pre; i++) { do_op({K_TRYPUSH + (BOUNDED ? 0 : -1), 1000 + i}, 0, aborter); do_op({K_TRYPOP, 0}, 0, aborter); }
        set_cap(cap);
        QModel m; m.cap = cap;
        for (long i = 0; i < keep; i++) { do_op({BOUNDED ? K_TRYPUSH : K_PUSH, 500 + i}, 0, aborter); m.q.push_back(500 + i); }
        g_throwat = (int)vf_param_int("throwat", 0); g_arm = g_throwat > 0; g_copies = 0;
        vf_liveness(1);
        std::vector<int> ids = gated(nthreads, nullptr, [&](int i) { thread_body(progs[i], i); });
        open_window_and_join(ids);
        vf_liveness(0); g_arm = false;
        // drain sequentially; the drain ops are part of the history
        for (;;) { int i = log.begin(K_TRYPOP, 0); long r = do_op({K_TRYPOP, 0}, 0, aborter); log.end(i, r); if (r == R_EMPTY) break; }
        // aborted calls must overlap an abort
        for (auto& o : log.ops) if (o.res == R_ABORTED) { bool ok = false; for (auto& a : log.ops) if (a.kind == K_ABORT && a.t0 < o.t1) ok = true; if (!ok) vf_fail("call returned user_abort although no abort() had started: %s", log.str(NAMES).c_str()); }
        if (!linearizable(log.ops, m)) vf_fail("history is not linearizable to a FIFO queue: %s", log.str(NAMES).c_str());
        for (auto& o : log.ops) { if (o.thread == 0 && o.kind == K_TRYPOP && o.res == R_EMPTY) break; vf_outcome("%s%ld ", o.kind == K_TRYPOP || o.kind == K_POP ? "g" : o.kind == K_PUSH ? "p" : o.kind == K_TRYPUSH ? "t" : "x", o.res); }
    }
    template <bool B = BOUNDED> typename std::enable_if<B>::type do_abort() { q.abort(); }
    template <bool B = BOUNDED> typename std::enable_if<!B>::type do_abort() {}
    template <bool B = BOUNDED> typename std::enable_if<B>::type set_cap(long c) { q.set_capacity(c); }
    template <bool B = BOUNDED> typename std::enable_if<!B>::type set_cap(long) {}
};

static void scenario() {
    bool bounded = vf_param_int("bounded", 0), big = vf_param_int("big", 0);
    if (!bounded && !big) { Run<tbb::concurrent_queue<Elem<4>>, Elem<4>, false> r; r.go(); }
    else if (!bounded && big) { Run<tbb::concurrent_queue<Elem<132>>, Elem<132>, false> r; r.go(); }
    else if (bounded && !big) { Run<tbb::concurrent_bounded_queue<Elem<4>>, Elem<4>, true> r; r.go(); }
    else { Run<tbb::concurrent_bounded_queue<Elem<132>>, Elem<132>, true> r; r.go(); }
}
int main(int argc, char** argv) { return vf_main(argc, argv, scenario); }
