// VF-BUILD: tbb
// C09 - concurrent_queue / concurrent_bounded_queue are linearizable FIFO queues (DESIGN.md section 7, C09).
// Parameters (-p):  prog="P11,P12|P21,G|G,G"   thread programs separated by '|', ops separated by ','
//     P<v> push (blocking push for the bounded queue)   T<v> try_push   G try_pop   Q blocking pop
//     A    abort (repeated until every other thread returned)   a  one abort() call, issued when every other thread is blocked or done           C<n> set_capacity(n)
//   bounded=1 cap=N big=1 (136-byte elements: one per page)  pre=N (push+pop N items first: advances tickets/pages)
//   keep=N (N items in the queue when the window opens)  throwat=K (K-th element copy inside the window throws)
#include <oneapi/tbb/concurrent_queue.h>
#include <oneapi/tbb/cache_aligned_allocator.h>
#include "vfh.h"
#include <deque>
#include <sstream>
using namespace vfh;

static int g_copies = 0, g_throwat = 0; static bool g_arm = false;
struct Thrown { int v; };
template <int PAD> struct Elem {
    int v; char pad[PAD];
    // element contents are announced to the happens-before oracle (-hb): whoever pops an element must see what its pusher wrote
    Elem(int x = 0) : v(x) { memset(pad, 0x5a, PAD); }
    Elem(const Elem& o) : v(o.v) { vf_plain_read(&o.v); vf_plain_write(&v); memcpy(pad, o.pad, PAD); if (g_arm && ++g_copies == g_throwat) throw Thrown{v}; }
    Elem& operator=(const Elem& o) { vf_plain_read(&o.v); vf_plain_write(&v); v = o.v; return *this; }
    ~Elem() { vf_plain_write(&v); }
};
// -p allocfail=K : the K-th memory allocation of the queue inside the window (its pages) throws std::bad_alloc
static int g_allocs = 0, g_allocfail = 0;
template <class T> struct FailAlloc { using value_type = T; FailAlloc() {} template <class U> FailAlloc(const FailAlloc<U>&) {}
    T* allocate(size_t n) { if (g_arm && g_allocfail && ++g_allocs == g_allocfail) throw std::bad_alloc(); return tbb::cache_aligned_allocator<T>().allocate(n); }
    void deallocate(T* p, size_t n) { tbb::cache_aligned_allocator<T>().deallocate(p, n); }
    template <class U> bool operator==(const FailAlloc<U>&) const { return true; } template <class U> bool operator!=(const FailAlloc<U>&) const { return false; } };
enum { K_PUSH, K_TRYPUSH, K_TRYPOP, K_POP, K_ABORT, K_SETCAP };
static const char* const NAMES[] = {"push", "try_push", "try_pop", "pop", "abort", "set_capacity"};
static const long R_EMPTY = -1, R_ABORTED = -2, R_THREW = -3;

struct QModel { std::deque<long> q; long cap;
    bool apply(const Op& o, bool chk) {
        if (o.done && (o.res == R_ABORTED || o.res == R_THREW)) return true;
        switch (o.kind) {
        case K_PUSH: if ((long)q.size() >= cap) return false; q.push_back(o.arg); return true;
        case K_TRYPUSH: if (!chk) { if ((long)q.size() < cap) q.push_back(o.arg); return true; }
            if (o.res == 1) { if ((long)q.size() >= cap) return false; q.push_back(o.arg); return true; } return (long)q.size() >= cap;
        case K_TRYPOP: if (!chk) { if (!q.empty()) q.pop_front(); return true; }
            if (o.res == R_EMPTY) return q.empty(); if (q.empty() || q.front() != o.res) return false; q.pop_front(); return true;
        case K_POP: if (q.empty()) return false; if (chk && q.front() != o.res) return false; q.pop_front(); return true;
        case K_ABORT: return true;
        case K_SETCAP: cap = o.arg; return true; }
        return false; } };

// Relaxed reference model for the recorded finding "an invalid entry counts against the capacity" (known_findings.txt): a push that
// failed after it had taken its ticket (element constructor threw, or a blocked push was aborted) leaves an invalid entry PH that occupies
// a slot until a COMPLETED pop has passed over it.  Identical to QModel as long as no push fails.
static const long PH = -777;
struct RModel { std::deque<long> q; long cap;
    void skip() { while (!q.empty() && q.front() == PH) q.pop_front(); }
    bool apply(const Op& o, bool) {
        switch (o.kind) {
        case K_PUSH: if (o.res == R_ABORTED) { q.push_back(PH); return true; } if ((long)q.size() >= cap) return false; q.push_back(o.res == R_THREW ? PH : o.arg); return true;
        case K_TRYPUSH: if (o.res == 0) return (long)q.size() >= cap; if ((long)q.size() >= cap) return false; q.push_back(o.res == R_THREW ? PH : o.arg); return true;
        case K_TRYPOP: skip(); if (o.res == R_EMPTY) return q.empty(); if (q.empty() || q.front() != o.res) return false; q.pop_front(); return true;
        case K_POP: if (o.res == R_ABORTED) return true; skip(); if (q.empty() || q.front() != o.res) return false; q.pop_front(); return true;
        case K_ABORT: return true;
        case K_SETCAP: cap = o.arg; return true; }
        return false; } };
// Search over linearizations of the completed operations in the relaxed model.  A pop takes its ticket (and so passes over leading invalid
// entries, which admits waiting pushes) when it STARTS, not when it returns: a completed pop-like call may therefore "skip" at any moment
// of its interval before its own linearization point.  Pending calls take no effect.
template <class Fin> static bool rsearch(const std::vector<Op>& ops, std::vector<char>& used, int remaining, const RModel& m, Fin& fin) {
    if (remaining == 0) return fin(m);
    unsigned long min_t1 = ~0ul;
    for (size_t i = 0; i < ops.size(); i++) if (!used[i] && ops[i].done) min_t1 = std::min(min_t1, ops[i].t1);
    if (!m.q.empty() && m.q.front() == PH) {
        bool can = false;
        for (size_t i = 0; i < ops.size(); i++) if (!used[i] && ops[i].done && (ops[i].kind == K_POP || ops[i].kind == K_TRYPOP) && ops[i].res != R_ABORTED && ops[i].t0 <= min_t1) can = true;
        if (can) { RModel m2 = m; m2.skip(); if (rsearch(ops, used, remaining, m2, fin)) return true; } }
    for (size_t i = 0; i < ops.size(); i++) {
        if (used[i] || !ops[i].done || ops[i].t0 > min_t1) continue;
        RModel m2 = m; if (!m2.apply(ops[i], true)) continue;
        used[i] = 1; bool ok = rsearch(ops, used, remaining - 1, m2, fin); used[i] = 0; if (ok) return true; }
    return false; }
template <class Fin> static bool rlin(const std::vector<Op>& ops, const RModel& init, Fin fin) { std::vector<char> used(ops.size(), 0); int nd = 0; for (auto& o : ops) nd += o.done; return rsearch(ops, used, nd, init, fin); }
static const Log* g_log = nullptr; static RModel g_rinit; static bool g_bounded = false;
static bool failed_push(const std::vector<Op>& ops) { for (auto& o : ops) if (o.done && (o.kind == K_PUSH || o.kind == K_TRYPUSH) && (o.res == R_THREW || o.res == R_ABORTED)) return true; return false; }
// stuck execution: explained iff the completed operations have a linearization in the relaxed model after which every pending call is
// legitimately waiting (a pending push: no free slot counting invalid entries; a pending pop: no item)
static const char* explain_stuck() {
    if (!g_bounded || !g_log || !failed_push(g_log->ops)) return nullptr;
    const std::vector<Op>& ops = g_log->ops;
    bool ok = rlin(ops, g_rinit, [&](const RModel& m) {
        bool items = false; for (long v : m.q) if (v != PH) items = true;
        for (auto& o : ops) if (!o.done) { if ((o.kind == K_PUSH) && (long)m.q.size() < m.cap) return false; if ((o.kind == K_POP || o.kind == K_TRYPOP) && items) return false; if (o.kind == K_TRYPUSH) return false; }
        return true; });
    return ok ? "blocked only because the invalid entry left by a failed push still counts against the capacity" : nullptr; }

struct Step { int kind; long arg; };
static std::vector<std::vector<Step>> parse(const char* s) {
    std::vector<std::vector<Step>> r(1);
    for (const char* p = s; *p;) {
        if (*p == '|') { r.emplace_back(); p++; continue; } if (*p == ',') { p++; continue; }
        char c = *p++; long a = strtol(p, (char**)&p, 10);
        switch (c) { case 'P': r.back().push_back({K_PUSH, a}); break; case 'T': r.back().push_back({K_TRYPUSH, a}); break; case 'G': r.back().push_back({K_TRYPOP, 0}); break;
            case 'Q': r.back().push_back({K_POP, 0}); break; case 'A': r.back().push_back({K_ABORT, 0}); break; case 'a': r.back().push_back({K_ABORT, 1}); break; case 'C': r.back().push_back({K_SETCAP, a}); break; default: fprintf(stderr, "bad prog\n"); exit(2); } }
    return r; }

template <class Q, class E, bool BOUNDED> struct Run {
    Q q; Log log; int finished = 0; int nthreads = 0;
    template <bool B = BOUNDED> typename std::enable_if<B, long>::type do_op(Step s, int me, bool& aborter) {
        E e;
        switch (s.kind) {
        case K_PUSH: try { q.push(E((int)s.arg)); return 0; } catch (tbb::user_abort&) { return R_ABORTED; } catch (Thrown&) { return R_THREW; } catch (std::bad_alloc&) { return R_THREW; }
        case K_TRYPUSH: try { return q.try_push(E((int)s.arg)) ? 1 : 0; } catch (Thrown&) { return R_THREW; } catch (std::bad_alloc&) { return R_THREW; }
        case K_TRYPOP: return q.try_pop(e) ? e.v : R_EMPTY;
        case K_POP: try { q.pop(e); return e.v; } catch (tbb::user_abort&) { return R_ABORTED; }
        case K_ABORT: if (s.arg == 1) { for (int i = 0; i < 2000 && !vf_others_idle(); i++) vf_yield(); q.abort(); return 0; }   // 'a': ONE abort() call, issued once every other thread is blocked or done
            aborter = true; q.abort(); return 0;
        case K_SETCAP: q.set_capacity(s.arg); return 0; }
        return 0; }
    template <bool B = BOUNDED> typename std::enable_if<!B, long>::type do_op(Step s, int me, bool& aborter) {
        E e;
        switch (s.kind) {
        case K_PUSH: try { q.push(E((int)s.arg)); return 0; } catch (Thrown&) { return R_THREW; } catch (std::bad_alloc&) { return R_THREW; }
        case K_TRYPOP: return q.try_pop(e) ? e.v : R_EMPTY;
        default: vf_fail("operation not available on concurrent_queue"); }
        return 0; }
    void thread_body(const std::vector<Step>& prog, int me) {
        for (auto s : prog) { bool aborter = false; int i = log.begin(s.kind, s.arg); long r = do_op(s, me, aborter);
            if (aborter) { finished++; while (finished < nthreads) { do_abort(); vf_yield(); } finished--; }   // 'A' keeps aborting until everybody else returned: the logged interval covers all its abort() calls
            log.end(i, r); }
        finished++; }
    void go() {
        auto progs = parse(vf_param("prog", "P11,P12|P21,G|G,G")); nthreads = (int)progs.size();
        long pre = vf_param_int("pre", 0), keep = vf_param_int("keep", 0), cap = vf_param_int("cap", BOUNDED ? 1 : (1l << 40));
        bool aborter = false;
        for (long i = 0; i < pre; i++) { do_op({K_TRYPUSH + (BOUNDED ? 0 : -1), 1000 + i}, 0, aborter); do_op({K_TRYPOP, 0}, 0, aborter); }
        set_cap(cap);
        QModel m; m.cap = cap; g_bounded = BOUNDED; g_log = &log; vf_on_stuck(explain_stuck);
        for (long i = 0; i < keep; i++) { do_op({BOUNDED ? K_TRYPUSH : K_PUSH, 500 + i}, 0, aborter); m.q.push_back(500 + i); }
        g_rinit.q = m.q; g_rinit.cap = cap;
        g_throwat = (int)vf_param_int("throwat", 0); g_allocfail = (int)vf_param_int("allocfail", 0); g_arm = g_throwat > 0 || g_allocfail > 0; g_copies = 0; g_allocs = 0;
        vf_liveness(1);
        std::vector<int> ids = gated(nthreads, nullptr, [&](int i) { thread_body(progs[i], i); });
        open_window_and_join(ids);
        g_arm = false;   /* liveness stays on: the sequential phase that follows must terminate too */
        // drain sequentially; the drain ops are part of the history
        for (;;) { int i = log.begin(K_TRYPOP, 0); long r = do_op({K_TRYPOP, 0}, 0, aborter); log.end(i, r); if (r == R_EMPTY) break; }
        // aborted calls must overlap an abort
        for (auto& o : log.ops) if (o.res == R_ABORTED) { bool ok = false; for (auto& a : log.ops) if (a.kind == K_ABORT && a.t0 < o.t1 && (!a.done || a.t1 > o.t0)) ok = true; /* an abort() that had returned before the call began cannot be its cause */ if (!ok) vf_fail("call returned user_abort although no abort() overlapped it: %s", log.str(NAMES).c_str()); }
        if (!linearizable(log.ops, m)) {
            if (BOUNDED && failed_push(log.ops) && rlin(log.ops, g_rinit, [](const RModel&) { return true; }))
                vf_fail("history is linearizable only if the invalid entry left by a failed push counts against the capacity until a pop passes over it: %s", log.str(NAMES).c_str());
            vf_fail("history is not linearizable to a FIFO queue: %s", log.str(NAMES).c_str()); }
        for (auto& o : log.ops) { if (o.thread == 0 && o.kind == K_TRYPOP && o.res == R_EMPTY) break; vf_outcome("%s%ld ", o.kind == K_TRYPOP || o.kind == K_POP ? "g" : o.kind == K_PUSH ? "p" : o.kind == K_TRYPUSH ? "t" : "x", o.res); }
    }
    template <bool B = BOUNDED> typename std::enable_if<B>::type do_abort() { q.abort(); }
    template <bool B = BOUNDED> typename std::enable_if<!B>::type do_abort() {}
    template <bool B = BOUNDED> typename std::enable_if<B>::type set_cap(long c) { q.set_capacity(c); }
    template <bool B = BOUNDED> typename std::enable_if<!B>::type set_cap(long) {}
};

static void scenario() {
    bool bounded = vf_param_int("bounded", 0), big = vf_param_int("big", 0);
    if (vf_param_int("allocfail", 0)) { if (!bounded) { Run<tbb::concurrent_queue<Elem<132>, FailAlloc<Elem<132>>>, Elem<132>, false> r; r.go(); } else { Run<tbb::concurrent_bounded_queue<Elem<132>, FailAlloc<Elem<132>>>, Elem<132>, true> r; r.go(); } return; }
    if (!bounded && !big) { Run<tbb::concurrent_queue<Elem<4>>, Elem<4>, false> r; r.go(); }
    else if (!bounded && big) { Run<tbb::concurrent_queue<Elem<132>>, Elem<132>, false> r; r.go(); }
    else if (bounded && !big) { Run<tbb::concurrent_bounded_queue<Elem<4>>, Elem<4>, true> r; r.go(); }
    else { Run<tbb::concurrent_bounded_queue<Elem<132>>, Elem<132>, true> r; r.go(); }
}
int main(int argc, char** argv) { return vf_main(argc, argv, scenario); }
