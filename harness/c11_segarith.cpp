// VF-BUILD: access noinstr
// C11 (sequential leg) - index-to-segment arithmetic of segment_table is a bijection: every index lies in exactly one
// segment, segments are contiguous and ordered.  Exhaustive for all indices < 2^20 and +-2 around every power of two to 2^63.
#include <oneapi/tbb/concurrent_vector.h>
#include "vfh.h"
typedef tbb::concurrent_vector<int> V;
static void check(size_t i) {
    size_t k = V::segment_index_of(i); size_t base = V::segment_base(k), sz = V::segment_size(k);
    if (!(base <= i && i - base < sz)) vf_fail("index %zu maps to segment %zu = [%zu,+%zu)", i, k, base, sz);
    if (k > 0) { size_t pb = V::segment_base(k - 1), ps = V::segment_size(k - 1); if (pb + ps != base) vf_fail("segments %zu and %zu are not contiguous", k - 1, k); }
    if (k < 62 && V::segment_base(k + 1) != base + sz) vf_fail("segment %zu does not end where %zu begins", k, k + 1);
    if (i > 0 && V::segment_index_of(i - 1) > k) vf_fail("segment index not monotone at %zu", i);
}
static void scenario(long c) {
    if (c < 1024) { for (size_t i = (size_t)c * 1024; i < (size_t)(c + 1) * 1024; i++) check(i); vf_outcome("block %ld: segments %zu..%zu", c, V::segment_index_of((size_t)c * 1024), V::segment_index_of((size_t)(c + 1) * 1024 - 1)); }
    else { int k = (int)(c - 1024); size_t p = (size_t)1 << k; for (long d = -2; d <= 2; d++) { size_t i = p + d; if (k == 0 && d < -1) continue; if (k == 63 && d > 0) { i = ~(size_t)0 - (d - 1); } check(i); } vf_outcome("around 2^%d: segment %zu", k, V::segment_index_of(p)); }
}
int main(int argc, char** argv) { return vf_main_cases(argc, argv, 1024 + 64, scenario); }
