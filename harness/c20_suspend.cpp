// VF-BUILD: tbb
// C20 - a suspended task resumes exactly once, however resume races with the suspension; the enclosing wait covers it;
// the suspending thread keeps executing other work.  Real scheduler with ucontext coroutines under vsched.
// -p kind=foreign   a foreign (non-arena) thread resumes as soon as it sees the suspend point
//         callback  resume is called inside the suspend callback itself
//         worker    another task of the same group (possibly on the worker) resumes
//         nested    two tasks suspend; one foreign thread resumes both in reverse order
//         arena1    arena with one slot (owner recall): the only thread suspends at the outermost level of execute()
//         twice     the same task suspends twice in a row
// -p P=2  -p asleep=1 (workers asleep at the start)  -p late=1 (the resumer waits until every other thread sleeps before it calls resume)
#include <oneapi/tbb/task_group.h>
#include <oneapi/tbb/task_arena.h>
#include <oneapi/tbb/task.h>
#include <oneapi/tbb/global_control.h>
#include "vfh.h"
using namespace vfh;
static tbb::task::suspend_point sp[2]; static int have[2]; static int cont[2], other, resumed[2], running_cont[2];
static void publish(int i, tbb::task::suspend_point p) { sp[i] = p; have[i] = 1; vf_wake(&have[i]); }
static tbb::task::suspend_point take(int i) { if (!have[i]) vf_block_on(&have[i]); return sp[i]; }
static void after_resume(int i) { if (!resumed[i]) vf_fail("suspended code %d continued before resume was called", i); if (++running_cont[i] != 1) vf_fail("suspended code %d continued on two threads at once", i); if (++cont[i] != 1) vf_fail("suspended code %d continued %d times", i, cont[i]); vf_point(); --running_cont[i]; }
static void scenario() {
    const char* k = vf_param("kind", "foreign"); int P = (int)vf_param_int("P", 2);
    tbb::global_control gc(tbb::global_control::max_allowed_parallelism, P);
    tbb::task_arena ar(streq(k, "arena1") ? 1 : P); int warm = 0;
    ar.execute([&] { tbb::task_group tg; tg.run([&] { warm++; }); tg.run([&] { warm++; }); tg.wait(); });
    if (vf_param_int("asleep", 0)) settle();
    int late = (int)vf_param_int("late", 0);
    vf_liveness(1);
    if (streq(k, "foreign") || streq(k, "arena1") || streq(k, "twice")) {
        int rounds = streq(k, "twice") ? 2 : 1;
        int r = spawn([&] { (void)tbb::this_task_arena::max_concurrency(); vf_gate_wait(); for (int i = 0; i < rounds; i++) { tbb::task::suspend_point p = take(i); if (late) settle(); /* late resume: every other thread has gone to sleep (or parked) by now */ resumed[i] = 1; tbb::task::resume(p); } });
        while (vf_gate_count() < 1) vf_yield();
        vf_window(1); vf_gate_open();
        ar.execute([&] { tbb::task_group tg;
            tg.run([&] { for (int i = 0; i < rounds; i++) { tbb::task::suspend([&, i](tbb::task::suspend_point p) { publish(i, p); }); after_resume(i); } });
            tg.run([&] { other++; });
            tg.wait();
            for (int i = 0; i < rounds; i++) if (cont[i] != 1) vf_fail("wait returned while the suspended task had continued %d times", cont[i]); if (other != 1) vf_fail("other task ran %d times", other); });
        vf_join(r); vf_window(0); }
    else if (streq(k, "callback")) { vf_window(1);
        ar.execute([&] { tbb::task_group tg; tg.run([&] { tbb::task::suspend([&](tbb::task::suspend_point p) { resumed[0] = 1; tbb::task::resume(p); }); after_resume(0); }); tg.run([&] { other++; }); tg.wait();
            if (cont[0] != 1 || other != 1) vf_fail("wait returned early: cont=%d other=%d", cont[0], other); }); vf_window(0); }
    else if (streq(k, "worker")) { vf_window(1);
        ar.execute([&] { tbb::task_group tg; std::atomic<int> ready{0};
            tg.run([&] { tbb::task::suspend([&](tbb::task::suspend_point p) { sp[0] = p; ready.store(1, std::memory_order_release); }); after_resume(0); });
            tg.run([&] { while (!ready.load(std::memory_order_acquire)) vf_yield(); resumed[0] = 1; tbb::task::resume(sp[0]); other++; });
            tg.wait(); if (cont[0] != 1 || other != 1) vf_fail("wait returned early: cont=%d other=%d", cont[0], other); }); vf_window(0); }
    else if (streq(k, "nested")) {
        int r = spawn([&] { (void)tbb::this_task_arena::max_concurrency(); vf_gate_wait(); tbb::task::suspend_point p1 = take(1), p0 = take(0); if (late) settle(); resumed[1] = 1; tbb::task::resume(p1); resumed[0] = 1; tbb::task::resume(p0); });
        while (vf_gate_count() < 1) vf_yield();
        vf_window(1); vf_gate_open();
        ar.execute([&] { tbb::task_group tg;
            tg.run([&] { tbb::task::suspend([&](tbb::task::suspend_point p) { publish(0, p); }); after_resume(0); });
            tg.run([&] { tbb::task::suspend([&](tbb::task::suspend_point p) { publish(1, p); }); after_resume(1); });
            tg.wait(); if (cont[0] != 1 || cont[1] != 1) vf_fail("wait returned early: %d %d", cont[0], cont[1]); });
        vf_join(r); vf_window(0); }
    else vf_fail("unknown kind");
    vf_liveness(0);
    vf_outcome("ok");
}
int main(int argc, char** argv) { return vf_main(argc, argv, scenario); }
