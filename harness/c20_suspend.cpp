// VF-BUILD: tbb
// C20 - a suspended task resumes exactly once, however resume races with the suspension; the enclosing wait covers it;
// the suspending thread keeps executing other work.  Real scheduler with ucontext coroutines under vsched.
// -p kind=foreign   a foreign (non-arena) thread resumes as soon as it sees the suspend point
//         callback  resume is called inside the suspend callback itself
//         worker    another task of the same group (possibly on the worker) resumes
//         nested    two tasks suspend; one foreign thread resumes both in reverse order
//         arena1    arena with one slot (owner recall): the only thread suspends at the outermost level of execute()
//         twice     the same task suspends twice in a row
// -p P=2  -p asleep=1 (workers asleep at the start)  -p late=1 (the resumer waits until every other thread sleeps before it calls resume)
#include <oneapi/tbb/task_group.h>
#include <oneapi/tbb/task_arena.h>
#include <oneapi/tbb/task.h>
#include <oneapi/tbb/global_control.h>
#include <oneapi/tbb/flow_graph.h>
#include "vfh.h"
using namespace vfh;
static tbb::task::suspend_point sp[2]; static int have[2]; static int cont[2], other, resumed[2], running_cont[2];
static void publish(int i, tbb::task::suspend_point p) { sp[i] = p; have[i] = 1; vf_wake(&have[i]); }
static tbb::task::suspend_point take(int i) { if (!have[i]) vf_block_on(&have[i]); return sp[i]; }
static void after_resume(int i) { if (!resumed[i]) vf_fail("suspended code %d continued before resume was called", i); if (++running_cont[i] != 1) vf_fail("suspended code %d continued on two threads at once", i); if (++cont[i] != 1) vf_fail("suspended code %d continued %d times", i, cont[i]); vf_point(); --running_cont[i]; }
static void scenario() {
    const char* k = vf_param("kind", "foreign"); int P = (int)vf_param_int("P", 2);
    tbb::global_control gc(tbb::global_control::max_allowed_parallelism, P);
    tbb::task_arena ar(streq(k, "arena1") ? 1 : P); int warm = 0;
    ar.execute([&] { tbb::task_group tg; tg.run([&] { warm++; }); tg.run([&] { warm++; }); tg.wait(); });
    if (vf_param_int("asleep", 0)) settle();
    int late = (int)vf_param_int("late", 0);
    vf_liveness(1);
    if (streq(k, "foreign") || streq(k, "arena1") || streq(k, "twice")) {
        int rounds = streq(k, "twice") ? 2 : 1;
        int r = spawn([&] { (void)tbb::this_task_arena::max_concurrency(); vf_gate_wait(); for (int i = 0; i < rounds; i++) { tbb::task::suspend_point p = take(i); if (late) settle(); /* late resume: every other thread has gone to sleep (or parked) by now */ resumed[i] = 1; tbb::task::resume(p); } });
        while (vf_gate_count() < 1) vf_yield();
        vf_window(1); vf_gate_open();
        ar.execute([&] { tbb::task_group tg;
            tg.run([&] { for (int i = 0; i < rounds; i++) { tbb::task::suspend([&, i](tbb::task::suspend_point p) { publish(i, p); }); after_resume(i); } });
            tg.run([&] { other++; });
            tg.wait();
            for (int i = 0; i < rounds; i++) if (cont[i] != 1) vf_fail("wait returned while the suspended task had continued %d times", cont[i]); if (other != 1) vf_fail("other task ran %d times", other); });
        vf_join(r); vf_window(0); }
    else if (streq(k, "callback")) { vf_window(1);
        ar.execute([&] { tbb::task_group tg; tg.run([&] { tbb::task::suspend([&](tbb::task::suspend_point p) { resumed[0] = 1; tbb::task::resume(p); }); after_resume(0); }); tg.run([&] { other++; }); tg.wait();
            if (cont[0] != 1 || other != 1) vf_fail("wait returned early: cont=%d other=%d", cont[0], other); }); vf_window(0); }
    else if (streq(k, "worker")) { vf_window(1);
        ar.execute([&] { tbb::task_group tg; std::atomic<int> ready{0};
            tg.run([&] { tbb::task::suspend([&](tbb::task::suspend_point p) { sp[0] = p; ready.store(1, std::memory_order_release); }); after_resume(0); });
            tg.run([&] { while (!ready.load(std::memory_order_acquire)) vf_yield(); resumed[0] = 1; tbb::task::resume(sp[0]); other++; });
            tg.wait(); if (cont[0] != 1 || other != 1) vf_fail("wait returned early: cont=%d other=%d", cont[0], other); }); vf_window(0); }
    else if (streq(k, "nested")) {
        int r = spawn([&] { (void)tbb::this_task_arena::max_concurrency(); vf_gate_wait(); tbb::task::suspend_point p1 = take(1), p0 = take(0); if (late) settle(); resumed[1] = 1; tbb::task::resume(p1); resumed[0] = 1; tbb::task::resume(p0); });
        while (vf_gate_count() < 1) vf_yield();
        vf_window(1); vf_gate_open();
        ar.execute([&] { tbb::task_group tg;
            tg.run([&] { tbb::task::suspend([&](tbb::task::suspend_point p) { publish(0, p); }); after_resume(0); });
            tg.run([&] { tbb::task::suspend([&](tbb::task::suspend_point p) { publish(1, p); }); after_resume(1); });
            tg.wait(); if (cont[0] != 1 || cont[1] != 1) vf_fail("wait returned early: %d %d", cont[0], cont[1]); });
        vf_join(r); vf_window(0); }
    else if (streq(k, "iso_wait")) {
        // one-slot arena: T3 (a task of group `inner`) suspends, the thread goes on on a coroutine and runs T2, which waits for `inner` INSIDE an isolated
        // region; a foreign thread resumes T3: the resume request must be picked up by the isolated waiter (nobody else can)
        tbb::task_arena a1(1);
        int r = spawn([&] { (void)tbb::this_task_arena::max_concurrency(); vf_gate_wait(); tbb::task::suspend_point p = take(0); if (late) settle(); resumed[0] = 1; tbb::task::resume(p); });
        while (vf_gate_count() < 1) vf_yield();
        vf_window(1); vf_gate_open();
        a1.execute([&] { tbb::task_group inner, outer;
            outer.run([&] { tbb::this_task_arena::isolate([&] { inner.wait(); if (cont[0] != 1) vf_fail("the isolated wait returned while the suspended task of its group had continued %d times", cont[0]); }); });
            inner.run([&] { tbb::task::suspend([&](tbb::task::suspend_point p) { publish(0, p); }); after_resume(0); });
            outer.wait(); inner.wait(); if (cont[0] != 1) vf_fail("wait returned while the suspended task had continued %d times", cont[0]); });
        vf_join(r); vf_window(0); }
    else if (streq(k, "iso_then_plain")) {
        // one thread: a first suspension happens inside an isolated region (the coroutine it creates is cached by the arena); later suspensions outside any
        // isolation reuse that coroutine, and their suspend callback spawns the task that calls resume(): the suspended thread must run it itself
        tbb::task_arena a1(1); vf_window(1);
        a1.execute([&] { tbb::this_task_arena::isolate([&] { tbb::task_group g; g.run_and_wait([&] { tbb::task::suspend([&](tbb::task::suspend_point p) { resumed[0] = 1; tbb::task::resume(p); }); after_resume(0); }); }); });
        for (int round = 0; round < 2; round++) { cont[1] = 0; resumed[1] = 0;
            a1.execute([&] { tbb::task_group g; g.run_and_wait([&] { tbb::task::suspend([&](tbb::task::suspend_point p) { g.run([&, p] { resumed[1] = 1; tbb::task::resume(p); }); }); after_resume(1); }); if (cont[1] != 1) vf_fail("run_and_wait returned while the suspended task had continued %d times", cont[1]); }); }
        vf_window(0); }
    else if (streq(k, "critical")) {
        // the suspension happens inside a CRITICAL task (body of a flow-graph node with a priority) in an arena of one slot; the foreign
        // thread resumes late, when the only thread of the arena sleeps: the resume task travels through the critical stream and must still wake it
        tbb::task_arena a1(1);
        int r = spawn([&] { (void)tbb::this_task_arena::max_concurrency(); vf_gate_wait(); tbb::task::suspend_point p = take(0); if (late) settle(); resumed[0] = 1; tbb::task::resume(p); });
        while (vf_gate_count() < 1) vf_yield();
        vf_window(1); vf_gate_open();
        a1.execute([&] { tbb::flow::graph g; tbb::flow::function_node<int, int> n(g, tbb::flow::unlimited, [&](int v) { tbb::task::suspend([&](tbb::task::suspend_point p) { publish(0, p); }); after_resume(0); return v; }, tbb::flow::node_priority_t(1));
            n.try_put(1); g.wait_for_all(); if (cont[0] != 1) vf_fail("wait_for_all returned while the suspended node body had continued %d times", cont[0]); });
        vf_join(r); vf_window(0); }
    else if (streq(k, "recall")) {
        // Owner recall when the thread that leaves a foreign stack must start a brand-new coroutine:
        //  1 the worker W suspends an enqueued task V on its own stack (W now lives on a coroutine Ca);
        //  2 main M runs tg.run_and_wait(X) at the top level of execute(); X suspends (M lives on a coroutine Cb);
        //  3 M is parked inside a task B; the controller F resumes X, so W runs the resume task: it retires Ca into the arena's coroutine
        //    cache and continues X on M's original stack;
        //  4 B suspends on M: M takes Ca out of the cache (cache empty);
        //  5 X finishes on W: the wait is over, W is not the owner, leaves through recall_point() with a NEW coroutine and must recall M;
        //  6 run_and_wait must return on M; then B and V are resumed and must continue.
        tbb::task_arena a2(2, 1); a2.initialize(); static int v_susp, x_susp, x_cont, x_on_m, m_blocked, b_on_w, do_pop, b_susp, b_done, v_done, cache_emptied, m_returned, m_ret_on_m, mthread; static tbb::task::suspend_point spV, spX, spB;
        v_susp = x_susp = x_cont = x_on_m = m_blocked = b_on_w = do_pop = b_susp = b_done = v_done = cache_emptied = m_returned = m_ret_on_m = 0; mthread = vf_self();
        auto wait_for = [](int& flag, int max = 20000) { for (int i = 0; i < max && !flag; i++) vf_yield(); return flag != 0; };
        static tbb::task_arena* ap; ap = &a2;
        static void (*blocker)() = [] { if (vf_self() != mthread) { ++b_on_w; return; } if (m_blocked) return; m_blocked = 1; for (int i = 0; i < 40000 && !do_pop; i++) vf_yield();
            tbb::task::suspend([](tbb::task::suspend_point p) { spB = p; b_susp = 1; }); b_done = 1; };
        int f = spawn([&] { (void)tbb::this_task_arena::max_concurrency(); vf_gate_wait();
            if (!wait_for(x_susp)) { vf_outcome("setup-x"); return; } for (int i = 0; i < 30; i++) vf_yield();
            for (int i = 0; !m_blocked; i++) { if (i > 60) { vf_outcome("setup-b"); return; } int seen = b_on_w; ap->enqueue(blocker); for (int j = 0; j < 400 && !m_blocked && b_on_w == seen; j++) vf_yield(); }
            resumed[0] = 1; tbb::task::resume(spX); if (!wait_for(x_cont)) { vf_outcome("setup-xc"); return; }
            do_pop = 1; if (!wait_for(b_susp)) { vf_outcome("setup-bs"); return; } for (int i = 0; i < 30; i++) vf_yield();
            cache_emptied = 1;
            if (!wait_for(m_returned, 60000)) vf_fail("run_and_wait() did not return although every task of the group finished: the owner thread was never recalled to its stack");
            if (!m_ret_on_m) vf_fail("run_and_wait() returned on a foreign thread");
            tbb::task::resume(spB); if (!wait_for(b_done, 60000)) vf_fail("suspended task B was never continued after resume");
            tbb::task::resume(spV); if (!wait_for(v_done, 60000)) vf_fail("suspended task V was never continued after resume"); });
        while (vf_gate_count() < 1) vf_yield();
        vf_window(1); vf_gate_open();
        a2.execute([&] { a2.enqueue([] { tbb::task::suspend([](tbb::task::suspend_point p) { spV = p; v_susp = 1; }); v_done = 1; });
            if (!wait_for(v_susp)) { vf_outcome("setup-v"); return; } for (int i = 0; i < 30; i++) vf_yield();
            tbb::task_group tg; tg.run_and_wait([&] { tbb::task::suspend([](tbb::task::suspend_point p) { spX = p; x_susp = 1; }); if (vf_self() == mthread) x_on_m = 1; x_cont = 1; for (int i = 0; i < 60000 && !cache_emptied; i++) vf_yield(); });
            m_ret_on_m = vf_self() == mthread; m_returned = 1; });
        vf_join(f); vf_window(0); vf_outcome("x_on_m=%d b_on_w=%d", x_on_m, b_on_w); }
    else vf_fail("unknown kind");
    vf_liveness(0);
    vf_outcome("ok");
}
int main(int argc, char** argv) { return vf_main(argc, argv, scenario); }
