// VF-BUILD: tbb whitebox
// C08 - mutual exclusion, reader/writer rules, truthful try/upgrade/downgrade, FIFO hand-off, no lost grant.
// -p kind=spin|queuing|mutex|spin_rw|queuing_rw|rw|spec|spec_rw   -p prog="W|R|U"  (threads '|', ops ',')
//   W write section   R read section   U read->upgrade->write section   D write->downgrade->read section
//   t try-write section   r try-read section   E write->downgrade->keep the read lock until all waiting readers are in (programs with R and E only)
#include <oneapi/tbb/spin_mutex.h>
#include <oneapi/tbb/queuing_mutex.h>
#include <oneapi/tbb/spin_rw_mutex.h>
#include <oneapi/tbb/queuing_rw_mutex.h>
#include <oneapi/tbb/mutex.h>
#include <oneapi/tbb/rw_mutex.h>
#include "governor.h"
#include "vfh.h"
using namespace vfh;

static int payload = 0, writers = 0, readers = 0, version = 0, r_waiting = 0;
struct Ent { int thread; char op; bool writer; unsigned long req_steps, entry_stamp; unsigned long qpos; bool blocking; };
static std::vector<Ent> entries;
static std::string outcome;

template <class M, bool RW> struct Ad;
template <class M> struct Ad<M, false> { using L = typename M::scoped_lock;
    static void acquire(L& l, M& m, bool) { l.acquire(m); } static bool try_acquire(L& l, M& m, bool) { return l.try_acquire(m); }
    static bool upgrade(L&) { vf_fail("no upgrade"); return false; } static void downgrade(L&) { vf_fail("no downgrade"); } };
template <class M> struct Ad<M, true> { using L = typename M::scoped_lock;
    static void acquire(L& l, M& m, bool w) { l.acquire(m, w); } static bool try_acquire(L& l, M& m, bool w) { return l.try_acquire(m, w); }
    static bool upgrade(L& l) { return l.upgrade_to_writer(); } static void downgrade(L& l) { l.downgrade_to_reader(); } };

// speculative_spin_rw_mutex: hardware transactions cannot be scheduled here, so the link between the explored fall-back path and the
// speculating readers is checked as a state invariant: readers that run as transactions look only at write_flag, therefore a writer
// that holds the real lock must have it set for as long as it is inside.
template <class L, class M> static void real_writer_visible(L&, M&, const char*) {}
static void real_writer_visible(tbb::speculative_spin_rw_mutex::scoped_lock& l, tbb::speculative_spin_rw_mutex& m, const char* how) {
    typedef tbb::detail::d1::rtm_rw_mutex::rtm_type RT;
    if (l.m_transaction_state == RT::rtm_real_writer && !m.write_flag.load(std::memory_order_relaxed)) vf_fail("speculative_spin_rw_mutex: the writer that holds the real lock (%s) is invisible to readers running as transactions: write_flag is not set", how); }
static void enter_w(const char* who) { if (++writers != 1 || readers) vf_fail("%s: writer section not exclusive (writers=%d readers=%d)", who, writers, readers); vf_plain_write(&payload); payload++; version++; vf_point(); }
static void leave_w() { --writers; }
static void enter_r(const char* who) { ++readers; if (writers) vf_fail("%s: reader inside while a writer holds the lock", who); vf_plain_read(&payload); }
static void leave_r() { --readers; }

template <class M, bool RW> struct Run { M m; using A = Ad<M, RW>; using L = typename M::scoped_lock;
    void op(char c) { L l; op(c, l); }
    // reuse=1: every thread keeps ONE scoped_lock object for all its sections (the queue node inside it is reused after release)
    void op(char c, L& l) { Ent e; e.thread = vf_self(); e.op = c; e.req_steps = vf_steps(); e.blocking = false; e.qpos = 0; int nb = vf_nblocks();
        switch (c) {
        case 'W': A::acquire(l, m, true); real_writer_visible(l, m, "lock"); e.blocking = true; e.writer = true; e.entry_stamp = vf_stamp(); entries.push_back(e); enter_w("lock"); leave_w(); l.release(); break;
        case 'R': ++r_waiting; A::acquire(l, m, false); --r_waiting; e.blocking = true; e.writer = false; e.entry_stamp = vf_stamp(); entries.push_back(e); enter_r("lock_shared"); vf_point(); leave_r(); l.release(); break;
        case 't': { bool ok = A::try_acquire(l, m, true); if (vf_nblocks() != nb) vf_fail("try_lock went to sleep"); outcome += ok ? "t1" : "t0"; if (ok) { real_writer_visible(l, m, "try_lock"); enter_w("try_lock"); leave_w(); l.release(); } } break;
        case 'r': { bool ok = A::try_acquire(l, m, false); if (vf_nblocks() != nb) vf_fail("try_lock_shared went to sleep"); outcome += ok ? "r1" : "r0"; if (ok) { enter_r("try_lock_shared"); vf_point(); leave_r(); l.release(); } } break;
        case 'U': { A::acquire(l, m, false); enter_r("lock_shared"); int seen = version; vf_point(); leave_r(); bool ok = A::upgrade(l); outcome += ok ? "u1" : "u0";
                    if (ok && version != seen) vf_fail("upgrade_to_writer returned true although a writer ran in between");
                    real_writer_visible(l, m, "upgrade"); enter_w("upgraded"); leave_w(); l.release(); } break;
        case 'D': { A::acquire(l, m, true); enter_w("lock"); leave_w(); ++readers; /* becomes a reader atomically */ A::downgrade(l); int seen = version; if (writers) vf_fail("writer inside right after downgrade");
                    vf_plain_read(&payload); vf_point(); if (version != seen || writers) vf_fail("downgrade_to_reader let a writer in"); leave_r(); l.release(); } break;
        case 'E': { A::acquire(l, m, true); enter_w("lock"); leave_w();
                    for (int j = 0; j < 2000 && !vf_others_idle(); j++) vf_yield();   /* give the readers time to fall asleep in lock_shared (they spin first) */
                    ++readers; A::downgrade(l);   /* keeps the read lock until every reader that is waiting in lock_shared got in: a downgrade must let (and wake) them in */
                    for (int j = 0; j < 300 && r_waiting > 0; j++) vf_yield();
                    if (r_waiting > 0) vf_fail("%d reader(s) still wait in lock_shared although the writer downgraded to a reader long ago and no writer is waiting (lost wake-up in downgrade)", r_waiting);
                    leave_r(); l.release(); } break;
        default: vf_fail("bad op %c", c); } }
    void go(const char* tailaddr_name) {
        std::vector<std::string> progs(1); for (const char* p = vf_param("prog", "W|W|W"); *p; p++) { if (*p == '|') progs.emplace_back(); else if (*p != ',') progs.back() += *p; }
        int expect_writes = 0; for (auto& s : progs) for (char c : s) if (c == 'W' || c == 'U' || c == 'D' || c == 'E') expect_writes++;
        const void* tail = tail_addr(); if (tail) vf_watch(tail, sizeof(void*));
        vf_liveness(1);
        bool reuse = vf_param_int("reuse", 0) != 0;
        auto ids = gated((int)progs.size(), nullptr, [&](int i) { if (reuse) { L* l = new L(); for (char c : progs[i]) op(c, *l); } else for (char c : progs[i]) op(c); });
        open_window_and_join(ids);
        vf_liveness(0);
        int tries = 0; for (size_t i = 0; i + 1 < outcome.size(); i++) if (outcome[i] == 't' && outcome[i + 1] == '1') tries++;
        if (payload != expect_writes + tries) vf_fail("lost update: payload=%d expected %d", payload, expect_writes + tries);
        if (tail) fifo_check();
        vf_outcome("%s p=%d", outcome.c_str(), payload);
        // the lock must be free again
        { L l; if (!A::try_acquire(l, m, true)) vf_fail("lock not free after all holders released"); l.release(); }
    }
    const void* tail_addr();
    void fifo_check() { // queue-entry order of blocking requests = order of their first RMW on the tail word
        const vf_watch_ev* w; int n = vf_watch_log(&w);
        for (auto& e : entries) { e.qpos = 0; for (int i = 0; i < n; i++) if (w[i].thread == e.thread && w[i].kind == 2 && w[i].stamp > e.req_steps) { e.qpos = w[i].stamp; break; } if (!e.qpos) vf_fail("engine: no queue entry found for a blocking acquire"); }
        for (auto& a : entries) for (auto& b : entries) if (&a != &b && a.blocking && b.blocking && (a.writer || b.writer) && a.qpos < b.qpos && a.entry_stamp > b.entry_stamp)
            vf_fail("FIFO: request of T%d (%c) entered the queue before T%d (%c) but was served after it", a.thread, a.op, b.thread, b.op); }
};
template <class M, bool RW> const void* Run<M, RW>::tail_addr() { return nullptr; }
template <> const void* Run<tbb::queuing_mutex, false>::tail_addr() { return &m.q_tail; }
template <> const void* Run<tbb::queuing_rw_mutex, true>::tail_addr() { return &m.q_tail; }

static void scenario() {
    const char* k = vf_param("kind", "spin");
    // hardware transactions cannot be put under the scheduler: the speculative mutexes are explored on their fall-back path
    tbb::detail::r1::governor::cpu_features.rtm_enabled = false;
    if (streq(k, "spin")) { Run<tbb::spin_mutex, false> r; r.go(0); }
    else if (streq(k, "queuing")) { Run<tbb::queuing_mutex, false> r; r.go(0); }
    else if (streq(k, "mutex")) { Run<tbb::mutex, false> r; r.go(0); }
    else if (streq(k, "spin_rw")) { Run<tbb::spin_rw_mutex, true> r; r.go(0); }
    else if (streq(k, "queuing_rw")) { Run<tbb::queuing_rw_mutex, true> r; r.go(0); }
    else if (streq(k, "rw")) { Run<tbb::rw_mutex, true> r; r.go(0); }
    else if (streq(k, "spec")) { Run<tbb::speculative_spin_mutex, false> r; r.go(0); }
    else if (streq(k, "spec_rw")) { Run<tbb::speculative_spin_rw_mutex, true> r; r.go(0); }
    else vf_fail("unknown kind");
}
int main(int argc, char** argv) { return vf_main(argc, argv, scenario); }
