// VF-BUILD: tbb
// C13 - concurrent_priority_queue is a linearizable priority queue; a throwing element copy only hits its own caller.
// -p prog="P9|G|G"  ops: P<v> push(const&)  M<v> push(&&)  E<v> emplace  G try_pop     -p pre="5,3" initial contents
// -p throwat=K : the K-th element copy-construction inside the window throws
#include <oneapi/tbb/concurrent_priority_queue.h>
#include "vfh.h"
#include <set>
using namespace vfh;
static int g_copies = 0, g_throwat = 0; static bool g_arm = false;
struct Thrown {};
// element contents are announced to the happens-before oracle (-hb): the aggregator's handler thread reads the pusher's element and writes the popper's result
struct El { int v; El(int x = 0) : v(x) {} El(const El& o) : v(o.v) { vf_plain_read(&o.v); vf_plain_write(&v); if (g_arm && ++g_copies == g_throwat) throw Thrown(); } El(El&& o) noexcept : v(o.v) { vf_plain_read(&o.v); vf_plain_write(&v); }
    El& operator=(const El& o) { vf_plain_read(&o.v); vf_plain_write(&v); v = o.v; return *this; } El& operator=(El&& o) noexcept { vf_plain_read(&o.v); vf_plain_write(&v); v = o.v; return *this; } ~El() { vf_plain_write(&v); }
    bool operator<(const El& o) const { vf_plain_read(&v); vf_plain_read(&o.v); return v / 10 < o.v / 10; } };   // priority = v/10, so v and v+1 tie
enum { K_PUSH, K_TRYPOP };
static const char* const NAMES[] = {"push", "try_pop"};
static const long R_EMPTY = -1, R_THREW = -3;
struct PModel { std::multiset<long> s;
    bool apply(const Op& o, bool chk) { if (o.done && o.res == R_THREW) return true;
        if (o.kind == K_PUSH) { s.insert(o.arg); return true; }
        if (!chk) { if (!s.empty()) s.erase(std::prev(s.end())); return true; }
        if (o.res == R_EMPTY) return s.empty(); if (s.empty()) return false;
        long top = *s.rbegin(); if (o.res / 10 != top / 10) return false; auto it = s.find(o.res); if (it == s.end()) return false; s.erase(it); return true; } };
static void scenario() {
    tbb::concurrent_priority_queue<El> q; Log log; PModel m;
    for (const char* p = vf_param("pre", ""); *p;) { long v = strtol(p, (char**)&p, 10); q.push(El((int)v)); m.s.insert(v); while (*p == ',') p++; }
    std::vector<std::string> progs(1); for (const char* p = vf_param("prog", "P9|G|G"); *p; p++) { if (*p == '|') progs.emplace_back(); else progs.back() += *p; }
    g_throwat = (int)vf_param_int("throwat", 0); g_copies = 0; g_arm = g_throwat > 0;
    vf_liveness(1);
    auto ids = gated((int)progs.size(), nullptr, [&](int i) {
        for (const char* p = progs[i].c_str(); *p;) { if (*p == ',') { p++; continue; } char c = *p++; long a = strtol(p, (char**)&p, 10);
            int k = c == 'G' ? K_TRYPOP : K_PUSH; int id = log.begin(k, a); long r = 0;
            try { if (c == 'P') { El e((int)a); q.push(e); } else if (c == 'M') q.push(El((int)a)); else if (c == 'E') q.emplace((int)a); else { El e; r = q.try_pop(e) ? e.v : R_EMPTY; } }
            catch (Thrown&) { r = R_THREW; } catch (std::bad_alloc&) { r = R_THREW; }
            log.end(id, r); } });
    open_window_and_join(ids);
    g_arm = false;   /* liveness stays on: the sequential phase that follows must terminate too */
    int threw = 0; for (auto& o : log.ops) if (o.res == R_THREW) threw++;
    if (g_throwat && g_copies >= g_throwat && threw != 1) vf_fail("one element copy threw but %d callers saw an exception: %s", threw, log.str(NAMES).c_str());
    if (!g_throwat && threw) vf_fail("exception without a throwing copy");
    for (;;) { int i = log.begin(K_TRYPOP, 0); El e; long r = q.try_pop(e) ? e.v : R_EMPTY; log.end(i, r); if (r == R_EMPTY) break; }
    if (!linearizable(log.ops, m)) vf_fail("history is not linearizable to a priority queue: %s", log.str(NAMES).c_str());
    for (auto& o : log.ops) vf_outcome("%s%ld ", o.kind == K_PUSH ? "p" : "g", o.res);
}
int main(int argc, char** argv) { return vf_main(argc, argv, scenario); }
