// VF-BUILD: tbb
// C07 on the real scheduler (one or two real worker threads) under vsched: every thread interleaving of stage tasks within the
// deviation bound (token counter, input_buffer lock, parking / waking of tokens at serial filters, recycling of the last stage
// task as an input task).  Same oracle as c07_pipe.cpp.
// -p modes=ipo (p parallel, i serial_in_order, o serial_out_of_order)  -p tokens=2 -p items=3 -p P=2 -p big=0 -p off=0
#include <oneapi/tbb/parallel_pipeline.h>
#include <oneapi/tbb/task_group.h>
#include <oneapi/tbb/task_arena.h>
#include <oneapi/tbb/global_control.h>
#include "vfh.h"
using namespace vfh;
enum { PAR = 0, SIO = 1, SOO = 2 };
static const tbb::filter_mode FM[] = {tbb::filter_mode::parallel, tbb::filter_mode::serial_in_order, tbb::filter_mode::serial_out_of_order};
static std::vector<int> modes; static int L, tokens, items, off; static int produced = 0, inflight = 0, maxinflight = 0, stops = 0, first_sio = -1, overlap = 0; static bool returned = false;
static std::vector<std::vector<int>> cnt, seq; static std::vector<int> live, lastorder;
struct Big { long id; long pad[3]; static int live; Big() : id(-1) { live++; } Big(long i) : id(i) { live++; } Big(const Big& o) : id(o.id) { live++; } Big(Big&& o) : id(o.id) { live++; } ~Big() { if (id == -3) vf_fail("an item object was destroyed twice"); id = -3; live--; } Big& operator=(const Big& o) { id = o.id; return *this; } };
int Big::live = 0;
template <class T> struct Conv; template <> struct Conv<int> { static int make(int id) { return id + off; } static int id(int v) { return v - off; } };
template <> struct Conv<Big> { static Big make(int id) { return Big(id); } static int id(const Big& v) { return (int)v.id; } };
static void enter(int f, int id) {
    if (returned) vf_fail("filter %d invoked for item %d after parallel_pipeline had returned", f, id);
    if (id < 0 || id >= items) vf_fail("filter %d received item %d which the first filter never produced", f, id);
    if (f > 0 && cnt[f - 1][id] != 1) vf_fail("item %d reached filter %d although it passed filter %d %d times", id, f, f - 1, cnt[f - 1][id]);
    if (++cnt[f][id] != 1) vf_fail("item %d passed filter %d twice", id, f);
    if (modes[f] != PAR && live[f] != 0) vf_fail("serial filter %d entered for item %d while another invocation of it is still running", f, id);
    int others = 0; for (int g = 0; g < L; g++) others += live[g]; if (others) overlap++;
    live[f]++; if (f == L - 1) lastorder.push_back(id);
    if (modes[f] == SIO) { seq[f].push_back(id); if (f != first_sio) { size_t n = seq[f].size(); const std::vector<int>& ref = seq[first_sio]; if (n > ref.size() || ref[n - 1] != id) vf_fail("serial_in_order filter %d processes item %d as its %zu-th item, but the first serial_in_order filter (%d) processed item %d at that position", f, id, n, first_sio, n <= ref.size() ? ref[n - 1] : -1); } }
    vf_point(); }
static void leave(int f, int) { live[f]--; if (f == L - 1) inflight--; }
static bool produce(int& id) { if (returned) vf_fail("the input filter was invoked after parallel_pipeline had returned");
    if (modes[0] != PAR && live[0] != 0) vf_fail("serial input filter invoked while another invocation of it is still running");
    if (produced == items) { stops++; return false; }
    id = produced++; if (++inflight > tokens) vf_fail("%d items in flight with max_number_of_live_tokens=%d", inflight, tokens); if (inflight > maxinflight) maxinflight = inflight; return true; }
template <class T> static tbb::filter<void, void> build() {
    if (L == 1) return tbb::make_filter<void, void>(FM[modes[0]], [](tbb::flow_control& fc) { int id; if (!produce(id)) { fc.stop(); return; } enter(0, id); leave(0, id); });
    tbb::filter<void, T> f = tbb::make_filter<void, T>(FM[modes[0]], [](tbb::flow_control& fc) -> T { int id; if (!produce(id)) { fc.stop(); return T(); } enter(0, id); T v = Conv<T>::make(id); leave(0, id); return v; });
    for (int i = 1; i < L - 1; i++) f = f & tbb::make_filter<T, T>(FM[modes[i]], [i](T v) -> T { int id = Conv<T>::id(v); enter(i, id); leave(i, id); return v; });
    int last = L - 1; return f & tbb::make_filter<T, void>(FM[modes[last]], [last](T v) { int id = Conv<T>::id(v); enter(last, id); leave(last, id); });
}
static void scenario() {
    const char* ms = vf_param("modes", "ipo"); for (const char* q = ms; *q; q++) modes.push_back(*q == 'p' ? PAR : *q == 'i' ? SIO : SOO); L = (int)modes.size();
    tokens = (int)vf_param_int("tokens", 2); items = (int)vf_param_int("items", 3); off = (int)vf_param_int("off", 0); int P = (int)vf_param_int("P", 2); int big = (int)vf_param_int("big", 0);
    cnt.assign(L, std::vector<int>(items + 1, 0)); seq.assign(L, {}); live.assign(L, 0); for (int i = 0; i < L; i++) if (modes[i] == SIO && first_sio < 0) first_sio = i;
    tbb::global_control gc(tbb::global_control::max_allowed_parallelism, P); tbb::task_arena ar(P); int warm = 0;
    ar.execute([&] { tbb::task_group tg; tg.run([&] { warm++; }); tg.run([&] { warm++; }); tg.wait(); });
    if (vf_param_int("asleep", 0)) settle();
    vf_liveness(1); vf_window(1);
    ar.execute([&] { tbb::filter<void, void> chain = big ? build<Big>() : build<int>(); tbb::parallel_pipeline(tokens, chain); });
    returned = true; vf_window(0); vf_liveness(0);
    if (stops == 0) vf_fail("parallel_pipeline returned although the input filter never signalled end of input");
    if (produced != items) vf_fail("parallel_pipeline returned after %d of %d items", produced, items);
    for (int f = 0; f < L; f++) { if (live[f]) vf_fail("parallel_pipeline returned while filter %d is still running", f); for (int i = 0; i < items; i++) if (cnt[f][i] != 1) vf_fail("item %d passed filter %d %d times", i, f, cnt[f][i]); }
    if (inflight != 0) vf_fail("parallel_pipeline returned with %d items that never left the last filter", inflight);
    for (int f = 0; f < L; f++) if (modes[f] == SIO && seq[f] != seq[first_sio]) vf_fail("serial_in_order filters %d and %d saw different item orders", first_sio, f);
    if (Big::live != 0) vf_fail("%d item objects were not destroyed exactly once", Big::live);
    vf_outcome("maxlive=%d overlap=%d last:", maxinflight, overlap > 0); for (int x : lastorder) vf_outcome("%d", x);
}
int main(int argc, char** argv) { return vf_main(argc, argv, scenario); }
