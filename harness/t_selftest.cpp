// VF-BUILD:
// Engine self-test (not a property check): toy programs with known verdicts.  tools/selftest.py runs them and fails loudly if the
// explorer misses a planted race or raises an alarm on a correct program.
// -p kind=lost_update   two threads do load;store on a counter          -> violation at deviation bound 1
// -p kind=atomic_update two threads fetch_add                            -> never a violation
// -p kind=dekker_relaxed store x; load y  ||  store y; load x (relaxed)  -> both-read-0 only with -tso (cost 2), never under SC
// -p kind=dekker_fenced  same with seq_cst fences                        -> never a violation, also with -tso
// -p kind=lost_wakeup   sleeper checks flag then blocks, waker sets flag then wakes (no re-check) -> deadlock at bound 1
#include "vfh.h"
#include <atomic>
using namespace vfh;
static std::atomic<int> x{0}, y{0}, c{0}; static int r0 = -1, r1 = -1; static int token;
static void scenario() {
    const char* k = vf_param("kind", "lost_update");
    if (streq(k, "lost_update") || streq(k, "atomic_update")) { bool at = streq(k, "atomic_update");
        auto ids = gated(2, nullptr, [&](int) { if (at) c.fetch_add(1); else { int v = c.load(std::memory_order_relaxed); c.store(v + 1, std::memory_order_relaxed); } });
        open_window_and_join(ids); if (c.load() != 2) vf_fail("lost update: counter is %d after two increments", c.load()); vf_outcome("c=%d", c.load()); }
    else if (streq(k, "dekker_relaxed") || streq(k, "dekker_fenced")) { bool f = streq(k, "dekker_fenced");
        auto ids = gated(2, nullptr, [&](int i) { if (i == 0) { x.store(1, std::memory_order_relaxed); if (f) std::atomic_thread_fence(std::memory_order_seq_cst); r0 = y.load(std::memory_order_relaxed); }
                                                  else { y.store(1, std::memory_order_relaxed); if (f) std::atomic_thread_fence(std::memory_order_seq_cst); r1 = x.load(std::memory_order_relaxed); } });
        open_window_and_join(ids); if (r0 == 0 && r1 == 0) vf_fail("store buffering: both threads read 0"); vf_outcome("r=%d%d", r0, r1); }
    else if (streq(k, "lost_wakeup")) {
        vf_liveness(1);
        auto ids = gated(2, nullptr, [&](int i) { if (i == 0) { if (!x.load()) { vf_point(); vf_block_on(&token); } } else { x.store(1); vf_wake(&token); } });
        open_window_and_join(ids); vf_outcome("done"); }
    else vf_fail("unknown kind");
}
int main(int argc, char** argv) { return vf_main(argc, argv, scenario); }
