// VF-BUILD: tbb
// C01 (b,c,d) - every unit of work runs exactly once; a wait covers all work submitted before and during it (transitively)
// and the waiter sees its writes.  Real scheduler (arena, dispatcher, mailboxes, task streams) under vsched, public API only.
// -p kind=tg|nested|tree|run_and_wait|handle|two_groups|ext_run|pfor|pfor_aff|pfor_auto|enqueue|isolate|cancel|oversub
// -p P=2 (arena concurrency / parallelism limit)  -p asleep=1 (let the workers fall asleep before the window opens)
#include <oneapi/tbb/task_group.h>
#include <oneapi/tbb/task_arena.h>
#include <oneapi/tbb/global_control.h>
#include <oneapi/tbb/parallel_for.h>
#include <oneapi/tbb/partitioner.h>
#include "vfh.h"
using namespace vfh;
static int cnt[32], data[32], who[32]; static int nunits = 0;
static void unit(int i) { if (++cnt[i] != 1) vf_fail("unit %d executed %d times", i, cnt[i]); vf_plain_write(&data[i]); data[i] = 100 + i; who[i] = vf_self(); if (i >= nunits) nunits = i + 1; }
static void covered(int n, const char* where, int from = 0) { for (int i = from; i < n; i++) { if (cnt[i] != 1) vf_fail("%s returned but unit %d ran %d times", where, i, cnt[i]); vf_plain_read(&data[i]); if (data[i] != 100 + i) vf_fail("%s: write of unit %d not visible", where, i); } }
// functor whose k-th copy throws (fault at the copy of the functor into its task inside task_group::run / defer)
static int g_fcopies = 0, g_fthrowat = 0; struct CopyThrew {};
struct Fun { int i; explicit Fun(int x) : i(x) {} Fun(const Fun& o) : i(o.i) { if (g_fthrowat && ++g_fcopies == g_fthrowat) throw CopyThrew(); } void operator()() const { unit(i); } };
static void scenario() {
    const char* k = vf_param("kind", "tg"); int P = (int)vf_param_int("P", 2);
    tbb::global_control gc(tbb::global_control::max_allowed_parallelism, P);
    tbb::task_arena ar(P); int warm = 0;
    ar.execute([&] { tbb::task_group tg; tg.run([&] { warm++; }); tg.run([&] { warm++; }); tg.wait(); });
    if (vf_param_int("asleep", 0)) settle();
    vf_liveness(1);
    if (streq(k, "tg")) { vf_window(1); ar.execute([&] { tbb::task_group tg; tg.run([&] { unit(0); }); tg.run([&] { unit(1); }); tg.wait(); covered(2, "task_group::wait"); }); vf_window(0); }
    else if (streq(k, "nested")) { vf_window(1); ar.execute([&] { tbb::task_group tg; tg.run([&] { unit(0); }); tg.run([&] { unit(1); tg.run([&] { unit(2); }); }); tg.wait(); covered(3, "task_group::wait"); }); vf_window(0); }
    else if (streq(k, "tree")) { vf_window(1); ar.execute([&] { tbb::task_group tg; tg.run([&] { unit(0); tg.run([&] { unit(1); tg.run([&] { unit(2); }); }); }); tg.wait(); covered(3, "task_group::wait"); }); vf_window(0); }
    else if (streq(k, "run_and_wait")) { vf_window(1); ar.execute([&] { tbb::task_group tg; tg.run([&] { unit(0); }); tg.run_and_wait([&] { unit(1); tg.run([&] { unit(2); }); }); covered(3, "task_group::run_and_wait"); }); vf_window(0); }
    else if (streq(k, "handle")) { vf_window(1); ar.execute([&] { tbb::task_group tg; tbb::task_handle h = tg.defer([&] { unit(0); }); tg.run([&] { unit(1); }); tg.run(std::move(h)); tg.wait(); covered(2, "task_group::wait"); }); vf_window(0); }
    else if (streq(k, "two_groups")) { vf_window(1); ar.execute([&] { tbb::task_group outer; outer.run([&] { tbb::task_group inner; inner.run([&] { unit(0); }); inner.wait(); if (cnt[0] != 1) vf_fail("inner wait returned early"); unit(1); }); outer.run([&] { unit(2); }); outer.wait(); covered(3, "outer wait"); }); vf_window(0); }
    else if (streq(k, "ext_run")) { // two external threads run() into one group while the main thread waits on it
        tbb::task_group tg; int submitted = 0;
        auto ids = gated(2, [&](int) { (void)tbb::this_task_arena::max_concurrency(); }, [&](int i) { tg.run([&, i] { unit(i); }); submitted++; });
        vf_window(1); vf_gate_open(); tg.run([&] { unit(2); }); join_all(ids);   // both run() calls have returned
        tg.wait(); covered(3, "task_group::wait"); vf_window(0); }
    else if (streq(k, "pfor")) { vf_window(1); ar.execute([&] { tbb::parallel_for(tbb::blocked_range<int>(0, 4, 1), [&](const tbb::blocked_range<int>& r) { for (int i = r.begin(); i < r.end(); i++) unit(i); }, tbb::simple_partitioner()); covered(4, "parallel_for"); }); vf_window(0); }
    else if (streq(k, "pfor_auto")) { vf_window(1); ar.execute([&] { tbb::parallel_for(0, 5, [&](int i) { unit(i); }); covered(5, "parallel_for"); }); vf_window(0); }
    else if (streq(k, "pfor_aff")) { tbb::affinity_partitioner ap; int first = 0;
        ar.execute([&] { tbb::parallel_for(tbb::blocked_range<int>(0, 4, 1), [&](const tbb::blocked_range<int>& r) { first += r.size(); }, ap); });   // first run records affinities
        vf_window(1); ar.execute([&] { tbb::parallel_for(tbb::blocked_range<int>(0, 4, 1), [&](const tbb::blocked_range<int>& r) { for (int i = r.begin(); i < r.end(); i++) unit(i); }, ap); covered(4, "parallel_for(affinity)"); }); vf_window(0); }
    else if (streq(k, "enqueue")) { vf_window(1); tbb::task_group tg; ar.enqueue([&] { unit(0); }); ar.enqueue(tg.defer([&] { unit(1); })); ar.execute([&] { tg.run([&] { unit(2); }); tg.wait(); }); 
        if (cnt[1] != 1 || cnt[2] != 1) vf_fail("wait returned before group work finished");
        for (int i = 0; i < 4000 && !cnt[0]; i++) vf_yield(); if (cnt[0] != 1) vf_fail("enqueued task did not run"); vf_window(0); covered(3, "enqueue/execute", 1); /* unit 0 is a plain enqueue that no wait covers: only its execution count is checked (above); the property promises no visibility edge for it */ }
    else if (streq(k, "isolate")) { vf_window(1); ar.execute([&] { tbb::task_group outer; outer.run([&] { unit(0); }); outer.run([&] { unit(1); });
            tbb::this_task_arena::isolate([&] { tbb::task_group in; in.run([&] { unit(2); }); in.run([&] { unit(3); }); in.wait(); if (cnt[2] != 1 || cnt[3] != 1) vf_fail("isolated wait returned early"); });
            outer.wait(); covered(4, "outer wait"); }); vf_window(0); }
    else if (streq(k, "cancel")) { int skipped = 0; vf_window(1); ar.execute([&] { tbb::task_group tg; tg.run([&] { ++cnt[0]; tg.cancel(); }); tg.run([&] { ++cnt[1]; }); tg.run([&] { ++cnt[2]; }); tbb::task_group_status st = tg.wait();
            for (int i = 0; i < 3; i++) if (cnt[i] > 1) vf_fail("unit %d ran %d times in a cancelled group", i, cnt[i]); if (cnt[0] != 1) vf_fail("canceller did not run"); if (st != tbb::canceled) vf_fail("wait status %d after cancel", (int)st);
            int before = cnt[1] + cnt[2]; tg.run([&] { ++cnt[3]; }); tg.wait(); if (cnt[3] != 1) vf_fail("group not reusable after cancel+wait"); if (cnt[1] + cnt[2] != before) vf_fail("a skipped unit ran later"); skipped = 2 - before; }); vf_window(0); vf_outcome("skipped=%d ", skipped); }
    else if (streq(k, "oversub")) { // three threads want into an arena of two slots
        auto ids = gated(2, [&](int) { (void)tbb::this_task_arena::max_concurrency(); }, [&](int i) { ar.execute([&, i] { tbb::task_group tg; tg.run([&, i] { unit(2 * i); }); tg.run([&, i] { unit(2 * i + 1); }); tg.wait(); if (cnt[2 * i] != 1 || cnt[2 * i + 1] != 1) vf_fail("wait of thread %d returned early", i); }); });
        vf_window(1); vf_gate_open(); ar.execute([&] { tbb::task_group tg; tg.run([&] { unit(4); }); tg.wait(); }); join_all(ids); vf_window(0); covered(5, "all waits"); }
    else if (streq(k, "copythrow")) { // the throwat-th functor copy throws: that run()/defer() call fails, the group stays usable and its waits still cover every accepted unit
        g_fthrowat = (int)vf_param_int("throwat", 1); g_fcopies = 0; int defer = (int)vf_param_int("defer", 0);
        vf_window(1); ar.execute([&] { tbb::task_group tg; bool acc[4] = {false, false, false, false}; int threw = 0;
            for (int i = 0; i < 3; i++) { Fun f(i); try { if (defer && i == 1) { tbb::task_handle h = tg.defer(f); tg.run(std::move(h)); } else tg.run(f); acc[i] = true; } catch (CopyThrew&) { threw++; } }
            tg.wait();
            for (int i = 0; i < 3; i++) { if (acc[i] && cnt[i] != 1) vf_fail("task_group::wait returned but accepted unit %d ran %d times (a run() whose functor copy threw came before)", i, cnt[i]); if (!acc[i] && cnt[i]) vf_fail("unit %d of a failed run() was executed", i); }
            { Fun f(3); g_fthrowat = 0; tg.run(f); tg.wait(); if (cnt[3] != 1) vf_fail("second wait returned but unit 3 ran %d times", cnt[3]); }
            if (threw != 1) vf_fail("%d run() calls threw, expected 1", threw); }); vf_window(0); }
    else if (streq(k, "reuse_after_throw")) {   // a wait that left by an exception: the group was not cancelled by anybody afterwards, so work submitted to it later runs and the next wait covers it
        int mode = (int)vf_param_int("mode", 0);   // 0: run_and_wait(f), f throws   1: run_and_wait(f), a task submitted by run() throws   2: wait(), a task throws   3: run_and_wait(task_handle), the handle's task throws
        vf_window(1); ar.execute([&] { tbb::task_group tg; struct Oops {}; int caught = 0;
            try { if (mode == 0) tg.run_and_wait([&] { throw Oops(); }); else if (mode == 1) { tg.run([&] { throw Oops(); }); tg.run_and_wait([&] { vf_point(); }); } else if (mode == 2) { tg.run([&] { throw Oops(); }); tg.wait(); } else { tbb::task_handle h = tg.defer([&] { throw Oops(); }); tg.run_and_wait(std::move(h)); } }
            catch (Oops&) { caught = 1; }
            if (!caught) vf_fail("the exception thrown inside the group did not reach the waiting call (mode %d)", mode);
            for (int i = 0; i < 3; i++) tg.run([&, i] { unit(i); });
            tbb::task_group_status st = tbb::not_complete; try { st = tg.wait(); } catch (Oops&) { vf_fail("the second wait rethrew the exception that the first wait had already delivered (mode %d)", mode); }
            for (int i = 0; i < 3; i++) if (cnt[i] != 1) vf_fail("a task_group is used again after a wait that left by an exception (mode %d): unit %d submitted afterwards ran %d times although nobody cancelled the group (second wait returned status %d)", mode, i, cnt[i], (int)st);
            covered(3, "task_group::wait after an earlier wait had thrown"); }); vf_window(0); }
    else if (streq(k, "abandon")) { // a worker leaves the arena (recalled for a higher-priority arena) with spawned tasks still in its pool: a later wait from another slot must find them
        int nchild = (int)vf_param_int("children", 3);
        tbb::task_arena A(2, 1, tbb::task_arena::priority::normal), B(2, 1, tbb::task_arena::priority::high); A.initialize(); B.initialize();
        static int spawned, release_x, blocker_started, finish, x_on; spawned = release_x = blocker_started = finish = 0; x_on = -1;
        tbb::task_group tg;
        vf_window(1);
        A.execute([&] { tg.run([&] { x_on = vf_self(); for (int i = 0; i < nchild; i++) tg.run([&, i] { unit(i); }); spawned = 1; for (int j = 0; j < 4000 && !release_x; j++) vf_yield(); }); });
        for (int j = 0; j < 4000 && !spawned; j++) vf_yield();
        if (!spawned) { tg.wait(); vf_fail("the spawned task was not taken by the worker"); }
        B.enqueue([&] { blocker_started = 1; for (int j = 0; j < 20000 && !finish; j++) vf_yield(); });
        release_x = 1;
        for (int j = 0; j < 4000 && !blocker_started; j++) vf_yield();
        int left_behind = 0; for (int i = 0; i < nchild; i++) if (!cnt[i]) left_behind++;
        A.execute([&] { tg.wait(); covered(nchild, "task_group::wait (entered after the spawning worker had left the arena)"); });
        finish = 1; vf_window(0); vf_outcome("left=%d started=%d ", left_behind, blocker_started); }
    else vf_fail("unknown kind");
    vf_liveness(0);
    vf_outcome("by:"); for (int i = 0; i < nunits; i++) vf_outcome("%d", who[i]);
}
int main(int argc, char** argv) { return vf_main(argc, argv, scenario); }
