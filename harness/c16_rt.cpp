// VF-BUILD: tbb
// C16 (arena behaviour) - concurrency bound, unique slot indices below the bound, reserved slots only for non-workers,
// observer entry/exit pairing, isolation, global_control worker budget.  Real scheduler under vsched, public API.
// -p kind=slots     task_arena(2,1): two external entrants + main (execute + enqueue), one worker allowed
//         arena1    task_arena(1): three external threads call execute (see known finding F-C)
//         enqueue1  task_arena(1) with enqueued work: the single extra (mandatory) worker is allowed
//         observer  task_scheduler_observer on task_arena(2,1): entry/exit pairing per thread
//         isolate   a thread waiting inside this_task_arena::isolate runs only tasks of its own isolation scope
//         gc        global_control limit L (1..2) created before the work starts: at most L-1 workers run user work
//         full_arena  A(2,0) filled by two application threads + pending spawn; B.enqueue must get the only worker
//         gc_isolate / gc_resume   the budget at the 'wakeup' sites (isolation skip, task::resume)      isolate_nested   nested isolate scopes
// -p L=2
#include <oneapi/tbb/task_group.h>
#include <oneapi/tbb/task_arena.h>
#include <oneapi/tbb/global_control.h>
#include <oneapi/tbb/task_scheduler_observer.h>
#include <oneapi/tbb/parallel_for.h>
#include <oneapi/tbb/task.h>
#include <oneapi/tbb/flow_graph.h>
#include "vfh.h"
using namespace vfh;
static int maxconc = 2, reserved = 1; static bool is_ext[16]; static int inflight[8], live, live_ext, live_workers, maxlive, enq_pending;
static bool allow_mandatory = false;
static void body(const char* what) {
    int idx = tbb::this_task_arena::current_thread_index(); int me = vf_self(); bool ext = is_ext[me];
    if (idx < 0 || idx >= maxconc + (allow_mandatory ? 1 : 0)) vf_fail("%s: current_thread_index %d is not below max_concurrency %d", what, idx, maxconc);
    if (inflight[idx]++) vf_fail("%s: slot index %d held by two threads at once", what, idx);
    if (!ext && idx < reserved) vf_fail("%s: worker thread occupies reserved slot %d", what, idx);
    live++; if (ext) live_ext++; else live_workers++; if (live > maxlive) maxlive = live;
    int allowed = maxconc + ((allow_mandatory && enq_pending) ? 1 : 0);
    if (live > allowed) vf_fail("%s: %d threads inside a task_arena with max_concurrency %d (external entrants %d, workers %d)", what, live, maxconc, live_ext, live_workers);
    vf_point(); vf_point();
    live--; if (ext) live_ext--; else live_workers--; inflight[idx]--;
}
struct Obs : tbb::task_scheduler_observer { int depth[16], entries[16], exits[16]; Obs(tbb::task_arena& a) : tbb::task_scheduler_observer(a) { for (int i = 0; i < 16; i++) depth[i] = entries[i] = exits[i] = 0; }
    void on_scheduler_entry(bool) override { int me = vf_self(); entries[me]++; if (++depth[me] != 1) vf_fail("observer: second entry call on thread %d without an exit", me); }
    void on_scheduler_exit(bool) override { int me = vf_self(); exits[me]++; if (--depth[me] != 0) vf_fail("observer: exit call on thread %d without a matching entry", me); } };
static void scenario() {
    const char* k = vf_param("kind", "slots"); int L = (int)vf_param_int("L", 3); is_ext[0] = true;
    vf_liveness(1);
    if (streq(k, "slots") || streq(k, "observer")) { tbb::global_control gc(tbb::global_control::max_allowed_parallelism, 3); maxconc = 2; reserved = 1;
        tbb::task_arena a(2, 1); a.initialize(); Obs* obs = nullptr; if (streq(k, "observer")) { obs = new Obs(a); obs->observe(true); }
        int warm = 0; a.execute([&] { tbb::task_group tg; tg.run([&] { warm++; }); tg.wait(); });
        auto ids = gated(2, [&](int) { is_ext[vf_self()] = true; (void)tbb::this_task_arena::max_concurrency(); }, [&](int) { a.execute([] { body("execute"); }); });
        vf_window(1); vf_gate_open(); a.enqueue([] { body("enqueue"); }); a.execute([] { body("execute(main)"); }); join_all(ids); vf_window(0);
        if (obs) { settle(); /* every worker has left the arena and sleeps */ for (int t = 0; t < 16; t++) { if (obs->depth[t] != 0) vf_fail("observer: thread %d has %d entry calls without exit although every thread has left the arena", t, obs->depth[t]); if (obs->entries[t] != obs->exits[t]) vf_fail("observer: thread %d entries %d exits %d", t, obs->entries[t], obs->exits[t]); } obs->observe(false); } }
    else if (streq(k, "arena1")) { tbb::global_control gc(tbb::global_control::max_allowed_parallelism, 2); maxconc = 1; reserved = 1; tbb::task_arena a(1); a.initialize();
        auto ids = gated(2, [&](int) { is_ext[vf_self()] = true; (void)tbb::this_task_arena::max_concurrency(); }, [&](int) { a.execute([] { body("execute"); }); });
        vf_window(1); vf_gate_open(); a.execute([] { body("execute(main)"); }); join_all(ids); vf_window(0); }
    else if (streq(k, "enqueue1")) { tbb::global_control gc(tbb::global_control::max_allowed_parallelism, 2); maxconc = 1; reserved = 1; allow_mandatory = true; tbb::task_arena a(1); a.initialize(); static int ev, done;
        vf_window(1); enq_pending = 1; a.enqueue([&] { body("enqueue"); enq_pending = 0; done = 1; vf_wake(&ev); }); a.execute([] { body("execute(main)"); }); if (!done) vf_block_on(&ev); vf_window(0); }
    else if (streq(k, "isolate")) { tbb::global_control gc(tbb::global_control::max_allowed_parallelism, 2); tbb::task_arena a(2); int warm = 0; a.execute([&] { tbb::task_group tg; tg.run([&] { warm++; }); tg.wait(); });
        int in_iso = 0; int iso_thread = -1;
        vf_window(1); a.execute([&] { tbb::task_group outer; for (int i = 0; i < 2; i++) outer.run([&] { if (in_iso && vf_self() == iso_thread) vf_fail("a thread waiting inside isolate executed a task spawned outside the isolation scope"); vf_point(); });
            tbb::this_task_arena::isolate([&] { iso_thread = vf_self(); in_iso = 1; tbb::task_group in; in.run([&] { vf_point(); }); in.run([&] { vf_point(); }); in.wait(); in_iso = 0; });
            outer.wait(); }); vf_window(0); }
    else if (streq(k, "isolate_proxy")) {
        // Isolation must also hold for work that travels as a task PROXY (affinity): a worker B runs a non-isolated parallel_for with
        // static_partitioner, which leaves proxies for the other slots in B's pool; meanwhile the main thread waits INSIDE an isolate scope
        // with nothing to do (its second inner task was stolen by worker A, who holds it) and walks the stealing loop.
        tbb::global_control gc(tbb::global_control::max_allowed_parallelism, 3); tbb::task_arena a(3); int warm = 0;
        a.execute([&] { tbb::task_group tg; for (int i = 0; i < 4; i++) tg.run([&] { warm++; for (int j = 0; j < 20; j++) vf_yield(); }); tg.wait(); });
        static int in_iso, iso_thread, x2_done, outer_started, outer_done, x1_thread; in_iso = 0; iso_thread = -1; x2_done = outer_started = outer_done = 0; x1_thread = -1;
        vf_window(1); a.execute([&] { tbb::task_group outer;
            outer.run([&] { tbb::parallel_for(tbb::blocked_range<int>(0, 3, 1), [&](const tbb::blocked_range<int>&) {
                    if (in_iso && vf_self() == iso_thread) vf_fail("a thread waiting inside isolate executed a chunk of a parallel_for that was started outside the isolation scope (it arrived as an affinity proxy)");
                    outer_started++; for (int j = 0; j < 400 && !x2_done; j++) vf_yield(); for (int j = 0; j < 60; j++) vf_yield(); outer_done++; }, tbb::static_partitioner()); });
            tbb::this_task_arena::isolate([&] { iso_thread = vf_self(); in_iso = 1; tbb::task_group in;
                in.run([&] { x1_thread = vf_self(); for (int j = 0; j < 3000 && outer_done < 3; j++) vf_yield(); });                       // X1: held by whoever takes it until the outer loop is over
                in.run([&] { for (int j = 0; j < 600 && (x1_thread < 0 || !outer_started); j++) vf_yield(); x2_done = 1; });          // X2: the scope owner pops it first and waits for X1 and the outer loop to be taken by others
                in.wait(); in_iso = 0; });
            outer.wait(); }); vf_window(0);
        vf_outcome("x1 on T%d outer_done=%d", x1_thread, outer_done); }
    else if (streq(k, "isolate_critical")) {
        // Isolation also holds for CRITICAL tasks (body of a flow-graph node with a priority, submitted through the critical task stream):
        // the main thread waits inside isolate with nothing to do (its inner task is held by the worker) while another application thread
        // puts a message to the priority node from outside the isolation scope.
        tbb::global_control gc(tbb::global_control::max_allowed_parallelism, 2); tbb::task_arena a(2); int warm = 0;
        a.execute([&] { tbb::task_group tg; for (int i = 0; i < 2; i++) tg.run([&] { warm++; for (int j = 0; j < 10; j++) vf_yield(); }); tg.wait(); });
        static int in_iso, iso_thread, node_done, x_thread, put_done; in_iso = node_done = put_done = 0; iso_thread = x_thread = -1;
        a.execute([&] { tbb::flow::graph g;
            tbb::flow::function_node<int, int> n(g, tbb::flow::unlimited, [&](int v) { if (in_iso && vf_self() == iso_thread) vf_fail("a thread waiting inside isolate executed the body of a priority flow-graph node (a critical task) that was submitted outside the isolation scope"); node_done = 1; return v; }, tbb::flow::node_priority_t(1));
            auto ids = gated(1, [&](int) { is_ext[vf_self()] = true; (void)tbb::this_task_arena::max_concurrency(); }, [&](int) { for (int j = 0; j < 3000 && x_thread < 0; j++) vf_yield(); n.try_put(7); put_done = 1; });
            vf_window(1); vf_gate_open();
            tbb::this_task_arena::isolate([&] { iso_thread = vf_self(); in_iso = 1; tbb::task_group in;
                in.run([&] { x_thread = vf_self(); for (int j = 0; j < 1500 && !(put_done && x_thread != iso_thread); j++) vf_yield(); for (int j = 0; j < 80; j++) vf_yield(); });   // X1: whoever takes it holds it until the message was put
                in.run([&] { for (int j = 0; j < 600 && x_thread < 0; j++) vf_yield(); });                                                                               // X2: the scope owner pops it first
                in.wait(); in_iso = 0; });
            join_all(ids); g.wait_for_all(); vf_window(0); if (!node_done) vf_fail("the node body never ran"); });
        vf_outcome("x1 on T%d", x_thread); }
    else if (streq(k, "priority")) {
        // One worker (max_allowed_parallelism 2), a normal-priority arena in which the worker holds stolen loop chunks in its own pool, and a
        // high-priority arena that gets demand (enqueue) from a second application thread: the higher-priority demand must be satisfied
        // first, so the worker may finish what it is doing but must not go on through the low-priority chunks in its pool.
        tbb::global_control gc(tbb::global_control::max_allowed_parallelism, 2);
        tbb::task_arena low(2, 1, tbb::task_arena::priority::low), high(2, 1, tbb::task_arena::priority::high); low.initialize(); high.initialize();
        static int worker_low_bodies, high_requested, after_request, high_ran, low_done; worker_low_bodies = high_requested = after_request = high_ran = low_done = 0;
        auto ids = gated(1, [&](int) { is_ext[vf_self()] = true; (void)tbb::this_task_arena::max_concurrency(); }, [&](int) {
            for (int j = 0; j < 4000 && !worker_low_bodies && !low_done; j++) vf_yield();
            high.enqueue([&] { high_ran = 1; }); high_requested = 1;
            for (int j = 0; j < 6000 && !high_ran; j++) vf_yield();
            if (!high_ran) vf_fail("work enqueued into the higher-priority arena did not run although a worker exists (it executed %d chunks of the lower-priority arena after the request)", after_request); });
        vf_window(1); vf_gate_open();
        low.execute([&] { tbb::parallel_for(tbb::blocked_range<int>(0, 16, 1), [&](const tbb::blocked_range<int>&) { bool w = !is_ext[vf_self()];
                if (w) { worker_low_bodies++; if (high_requested && !high_ran && ++after_request >= 4) vf_fail("the worker went on executing chunks of the lower-priority arena (%d so far) after a higher-priority arena had requested it", after_request); }
                for (int j = 0; j < 6; j++) vf_yield(); }, tbb::simple_partitioner()); low_done = 1; });
        join_all(ids); vf_window(0); vf_outcome("worker_low=%d after_request=%d", worker_low_bodies, after_request); }
    else if (streq(k, "gc")) { int workers_live = 0;
        tbb::global_control gc(tbb::global_control::max_allowed_parallelism, L); tbb::task_arena a(3); a.initialize();
        vf_window(1); a.execute([&] { tbb::parallel_for(0, 4, [&](int) { bool w = !is_ext[vf_self()]; if (w) { if (++workers_live > L - 1) vf_fail("%d workers execute user work while max_allowed_parallelism is %d", workers_live, L); } vf_point(); vf_point(); if (w) --workers_live; }, tbb::simple_partitioner()); }); vf_window(0); }
    else if (streq(k, "gc_isolate") || streq(k, "gc_resume")) {   // the worker budget must also hold at the rarely taken "wakeup" sites: isolation skips, task::resume
        int workers_live = 0; tbb::global_control gc(tbb::global_control::max_allowed_parallelism, L); tbb::task_arena a(3); a.initialize();
        auto ub = [&](const char* what) { bool w = !is_ext[vf_self()]; if (w) { if (++workers_live > L - 1) vf_fail("%s: %d workers execute user work while max_allowed_parallelism is %d and nothing is enqueued", what, workers_live, L); } vf_point(); if (w) --workers_live; };
        if (streq(k, "gc_isolate")) {   // an isolated waiter has to skip the foreign tasks in its own pool (another application thread in the arena executes them)
            tbb::task_group tg; auto ids = gated(1, [&](int) { is_ext[vf_self()] = true; (void)tbb::this_task_arena::max_concurrency(); }, [&](int) { a.execute([&] { tg.wait(); }); });
            vf_window(1); a.execute([&] { for (int i = 0; i < 3; i++) tg.run([&] { ub("task skipped by the isolated waiter"); }); vf_gate_open(); tbb::this_task_arena::isolate([&] { tg.wait(); }); });
            join_all(ids); settle(200); vf_window(0); }
        else { static tbb::task::suspend_point spt; static int have; int r = spawn([&] { is_ext[vf_self()] = true; (void)tbb::this_task_arena::max_concurrency(); vf_gate_wait(); if (!have) vf_block_on(&have); tbb::task::resume(spt); });
            while (vf_gate_count() < 1) vf_yield();
            vf_window(1); vf_gate_open(); a.execute([&] { tbb::task_group tg; tg.run([&] { tbb::task::suspend([&](tbb::task::suspend_point p) { spt = p; have = 1; vf_wake(&have); }); ub("after resume"); }); for (int i = 0; i < 2; i++) tg.run([&] { ub("sibling task"); }); tg.wait(); });
            vf_join(r); settle(200); vf_window(0); } }
    else if (streq(k, "isolate_nested")) {   // leaving a nested isolate scope must restore the enclosing scope, not "no isolation"
        // Main is inside scope S, has left a nested scope, and waits for a task of S that runs on the worker, while its own pool holds a task spawned outside S.
        tbb::global_control gc(tbb::global_control::max_allowed_parallelism, 2); tbb::task_arena a(2); int warm = 0; a.execute([&] { tbb::task_group tg; tg.run([&] { warm++; }); tg.wait(); });
        int in_iso = 0, iso_thread = -1, submitted = 0, outer2_ran = 0; tbb::task_group* gin = nullptr; int nested = (int)vf_param_int("nested", 1);
        vf_window(1); a.execute([&] { tbb::task_group outer;
            outer.run([&] { if (vf_self() == iso_thread) return;                       // taken by main after it left the scope: nothing to do
                for (int i = 0; i < 300 && !gin; i++) vf_yield(); if (!gin) return;
                gin->run([&] { for (int i = 0; i < 40 && !outer2_ran; i++) vf_yield(); }); submitted = 1; });   // a task of scope S that keeps main waiting
            outer.run([&] { if (in_iso && vf_self() == iso_thread) vf_fail("a thread waiting inside isolate executed a task spawned outside the isolation scope%s", nested ? " (after a nested scope had returned)" : ""); outer2_ran = 1; vf_point(); });
            tbb::this_task_arena::isolate([&] { iso_thread = vf_self(); in_iso = 1;
                if (nested) tbb::this_task_arena::isolate([&] { tbb::task_group t2; t2.run([&] { vf_point(); }); t2.wait(); });
                tbb::task_group in; in.run([&] { for (int i = 0; i < 300 && !submitted; i++) vf_yield(); }); gin = &in; in.wait(); gin = nullptr; in_iso = 0; });
            outer.wait(); }); vf_window(0); }
    else if (streq(k, "full_arena")) {   // one worker (limit 2); arena A(2,0) is full of application threads (which lowers its demand for workers to nothing it could use) and keeps a
        // spawned task pending; a task enqueued into arena B must get the worker - it must not be granted to A, where it cannot get a slot.
        // Both application threads are inside A *before* the spawn (until then A has no demand, so the worker cannot take one of its slots
        // and end up parked in the user body, which would make the scenario wait for a thread that the harness itself holds).
        tbb::global_control gc(tbb::global_control::max_allowed_parallelism, 2); tbb::task_arena A(2, (unsigned)vf_param_int("resA", 0)), B(2, 1); A.initialize(); B.initialize();   // resA=1: the second application thread sits in the first non-reserved slot
        static int inA, spawned, leave, ran, evB, idxA[2]; inA = spawned = leave = ran = evB = 0; idxA[0] = idxA[1] = -1;
        auto ids = gated(2, [&](int) { is_ext[vf_self()] = true; (void)tbb::this_task_arena::max_concurrency(); }, [&](int i) {
            A.execute([&, i] { tbb::task_group tg; idxA[i] = tbb::this_task_arena::current_thread_index(); inA++; vf_wake(&inA); while (inA < 2) vf_block_on(&inA);
                if (i == 0) { tg.run([&] { vf_point(); });   /* advertised work in A; it stays in this thread's pool while the thread is parked below */ spawned = 1; vf_wake(&spawned); }
                while (!leave) vf_block_on(&leave); tg.wait(); }); });
        vf_window(1); vf_gate_open(); while (!spawned) vf_block_on(&spawned);
        B.enqueue([&] { ran = 1; vf_wake(&evB); });
        for (int j = 0; j < 600 && !ran; j++) vf_yield();
        int bad = !ran; leave = 1; vf_wake(&leave); join_all(ids);
        if (idxA[0] == idxA[1] || idxA[0] < 0 || idxA[0] > 1 || idxA[1] < 0 || idxA[1] > 1) vf_fail("two application threads inside task_arena(2,0) report slot indices %d and %d", idxA[0], idxA[1]);
        if (bad) vf_fail("a task enqueued into arena B did not run although a worker exists and is not inside any user code: arena A, whose two slots are both held by application threads, kept its demand for a worker");
        vf_window(0); }
    else if (streq(k, "observer_slot")) {   // a thread is inside the arena from its on_scheduler_entry to the end of its on_scheduler_exit: indices distinct, at most max_concurrency threads
        tbb::global_control gc(tbb::global_control::max_allowed_parallelism, 3); tbb::task_arena a(2, 2); a.initialize();   // both slots reserved for application threads: no workers
        struct SlotObs : tbb::task_scheduler_observer { int held[8], inside; SlotObs(tbb::task_arena& ar) : tbb::task_scheduler_observer(ar), inside(0) { for (int& h : held) h = 0; }
            void on_scheduler_entry(bool) override { int idx = tbb::this_task_arena::current_thread_index(); if (idx < 0 || idx >= 2) vf_fail("observer entry: current_thread_index %d in an arena of 2 slots", idx);
                if (held[idx]++) vf_fail("on_scheduler_entry: slot index %d is handed to a second thread while the thread that holds it is still inside (its on_scheduler_exit has not finished)", idx);
                if (++inside > 2) vf_fail("%d threads are inside a task_arena with max_concurrency 2 (counted from on_scheduler_entry to the end of on_scheduler_exit)", inside); }
            void on_scheduler_exit(bool) override { int idx = tbb::this_task_arena::current_thread_index(); for (int j = 0; j < 6; j++) vf_yield();   /* a slow user callback */
                if (idx < 0 || idx >= 2 || held[idx] != 1) vf_fail("on_scheduler_exit: slot index %d is held by %d threads", idx, idx >= 0 && idx < 2 ? held[idx] : -1); held[idx]--; inside--; } } obs(a);
        obs.observe(true);
        auto ids = gated(2, [&](int) { is_ext[vf_self()] = true; (void)tbb::this_task_arena::max_concurrency(); }, [&](int) { a.execute([] { vf_point(); }); });
        vf_window(1); a.execute([&] { vf_gate_open(); for (int j = 0; j < 3000 && !vf_others_idle(); j++) vf_yield(); });   // the main thread keeps slot 0 while the two others pass through slot 1
        join_all(ids); vf_window(0); obs.observe(false); }
    else vf_fail("unknown kind");
    vf_liveness(0);
    vf_outcome("maxlive=%d", maxlive);
}
int main(int argc, char** argv) { return vf_main(argc, argv, scenario); }
