// VF-BUILD: tbb
// C14 / C15 on the real scheduler under vsched: external threads call try_put while graph tasks run on the main thread and one real
// worker, so aggregator batches, push/pull edge switching, the race of a forwarder task with a try_put for the last concurrency slot,
// limiter puts racing decrements, join ports fed from two threads and an async gateway completed by a foreign thread are interleaved
// at the level of individual atomic operations.
// -p kind=ext2|ext2rej|pull|pull2|limiter|limiter_ext|limiter_push|joinq|joinr|joink|bufsplit|async|seq    -p P=2  -p asleep=0
#include <oneapi/tbb/flow_graph.h>
#include <oneapi/tbb/task_arena.h>
#include <oneapi/tbb/task_group.h>
#include <oneapi/tbb/global_control.h>
#include "vfh.h"
#include <map>
#include <set>
using namespace vfh; using namespace tbb::flow;
struct NL { const char* name; int limit; int live = 0, maxlive = 0; std::map<int, int> cnt; std::vector<int> order; };
static bool quiet = false;
static void enter(NL& n, int id) { if (quiet) vf_fail("body of %s started for message %d after the final wait_for_all had returned", n.name, id); n.cnt[id]++; n.order.push_back(id);
    if (n.limit && n.live >= n.limit) vf_fail("node %s (concurrency limit %d) runs %d bodies at once", n.name, n.limit, n.live + 1); n.live++; if (n.live > n.maxlive) n.maxlive = n.live; vf_point(); }
static void leave(NL& n) { n.live--; }
static void once(NL& n, const std::set<int>& ids, int times = 1) { if (n.live) vf_fail("wait_for_all returned while %d bodies of %s are running", n.live, n.name);
    for (int id : ids) { auto it = n.cnt.find(id); int c = it == n.cnt.end() ? 0 : it->second; if (c != times) vf_fail("message %d was processed %d times by %s (expected %d)", id, c, n.name, times); }
    for (auto& kv : n.cnt) if (!ids.count(kv.first)) vf_fail("%s processed message %d which it never accepted", n.name, kv.first); }
static std::string ord(const NL& n) { std::string s; for (int x : n.order) { s += std::to_string(x); s += ','; } return s; }
static void scenario() {
    const char* k = vf_param("kind", "ext2"); int P = (int)vf_param_int("P", 2);
    tbb::global_control gc(tbb::global_control::max_allowed_parallelism, P); tbb::task_arena ar(P); int warm = 0;
    ar.execute([&] { tbb::task_group tg; tg.run([&] { warm++; }); tg.run([&] { warm++; }); tg.wait(); });
    if (vf_param_int("asleep", 0)) settle();
    vf_liveness(1);
    ar.execute([&] {
        graph g; NL f{"F", 1}, s{"S", 1}, f2{"F2", 1}; std::set<int> acc; int rejected = 0;
        auto initext = [&](int) { (void)tbb::this_task_arena::max_concurrency(); };
        if (streq(k, "ext2") || streq(k, "ext2rej")) {   // two external putters + main into one serial node
            bool rej = streq(k, "ext2rej");
            function_node<int, int> Fq(g, serial, [&](int x) { enter(f, x); leave(f); return x; }); function_node<int, int, rejecting> Fr(g, serial, [&](int x) { enter(f, x); leave(f); return x; });
            function_node<int, continue_msg> S(g, serial, [&](int x) { enter(s, x); leave(s); return continue_msg(); }); if (rej) make_edge(Fr, S); else make_edge(Fq, S);
            bool ok[3] = {false, false, false};
            auto ids = gated(2, initext, [&](int i) { ok[i] = rej ? Fr.try_put(10 + i) : Fq.try_put(10 + i); });
            vf_window(1); vf_gate_open(); ok[2] = rej ? Fr.try_put(12) : Fq.try_put(12); g.wait_for_all(); join_all(ids); g.wait_for_all(); quiet = true; vf_window(0);
            for (int i = 0; i < 3; i++) if (ok[i]) acc.insert(10 + i); else { rejected++; if (!rej) vf_fail("a queueing function_node rejected message %d", 10 + i); }
            once(f, acc); once(s, acc); }
        else if (streq(k, "pull") || streq(k, "pull2")) {   // buffering sender -> rejecting serial node(s): push/pull edge switching
            queue_node<int> Q(g); function_node<int, int, rejecting> F(g, serial, [&](int x) { enter(f, x); leave(f); return x; }); function_node<int, int, rejecting> F2(g, serial, [&](int x) { enter(f2, x); leave(f2); return x; });
            function_node<int, continue_msg> S(g, unlimited, [&](int x) { enter(s, x); leave(s); return continue_msg(); }); s.limit = 0; make_edge(Q, F); make_edge(F, S); if (streq(k, "pull2")) { make_edge(Q, F2); make_edge(F2, S); }
            auto ids = gated(1, initext, [&](int) { if (!Q.try_put(2)) vf_fail("queue_node rejected"); });
            vf_window(1); vf_gate_open(); for (int i = 0; i < 2; i++) if (!Q.try_put(i)) vf_fail("queue_node rejected"); g.wait_for_all(); join_all(ids); g.wait_for_all(); quiet = true; vf_window(0);
            acc = {0, 1, 2}; std::set<int> got; for (auto& kv : f.cnt) { if (kv.second != 1) vf_fail("F processed %d %d times", kv.first, kv.second); got.insert(kv.first); } for (auto& kv : f2.cnt) { if (kv.second != 1 || got.count(kv.first)) vf_fail("message %d was delivered twice", kv.first); got.insert(kv.first); }
            if (got != acc) vf_fail("queue_node -> rejecting successor: %zu of 3 messages were processed (lost on an edge switch)", got.size()); once(s, acc);
            if (!streq(k, "pull2")) { int last = -1; for (int x : f.order) if (x < 2) { if (x < last) vf_fail("queue_node: message %d overtook message %d", last, x); last = x; } } }
        else if (streq(k, "limiter") || streq(k, "limiter_ext")) {   // queue -> limiter(1) -> F -> decrementer
            queue_node<int> Q(g); limiter_node<int> L(g, 1); int started = 0, finished = 0;
            function_node<int, int> F(g, unlimited, [&](int x) { started++; if (started - finished > 1) vf_fail("limiter_node(threshold 1): %d forwarded messages are not yet decremented", started - finished); f.limit = 0; enter(f, x); leave(f); finished++; return x; });
            function_node<int, continue_msg> D(g, unlimited, [&](int) { return continue_msg(); }); make_edge(Q, L); make_edge(L, F); make_edge(F, D); make_edge(D, L.decrementer());
            std::vector<int> ids; if (streq(k, "limiter_ext")) ids = gated(1, initext, [&](int) { if (!Q.try_put(2)) vf_fail("queue_node rejected"); });
            vf_window(1); vf_gate_open(); Q.try_put(0); Q.try_put(1); if (!streq(k, "limiter_ext")) Q.try_put(2); g.wait_for_all(); join_all(ids); g.wait_for_all(); quiet = true; vf_window(0);
            acc = {0, 1, 2}; once(f, acc); }
        else if (streq(k, "limiter_push")) {   // a direct put is in flight inside a slow lightweight successor while the limiter's forward task serves a queued predecessor
            queue_node<int> Q(g); limiter_node<int> L(g, 1); int started = 0, decs = 0; f.limit = 0;
            function_node<int, continue_msg, lightweight> S(g, unlimited, [&](int x) noexcept { started++; if (started - decs > 1) vf_fail("limiter_node(threshold 1): message %d forwarded while %d forwarded messages are not yet decremented", x, started - decs - 1); enter(f, x); leave(f); return continue_msg(); });
            make_edge(Q, L); if (!Q.try_put(100)) vf_fail("queue_node rejected"); g.wait_for_all();          // no successor yet: the limiter rejects, the queue becomes its pull-mode predecessor
            vf_window(1); make_edge(L, S);                                                                    // spawns the limiter's forward task
            bool ok = L.try_put(1); g.wait_for_all();
            decs++; L.decrementer().try_put(continue_msg()); g.wait_for_all(); if (ok) { decs++; L.decrementer().try_put(continue_msg()); g.wait_for_all(); } quiet = true; vf_window(0);
            acc = {100}; if (ok) acc.insert(1); once(f, acc); }
        else if (streq(k, "joinq") || streq(k, "joink") || streq(k, "joinr")) {   // two threads feed the two ports
            std::vector<std::pair<int, int>> out; auto body = [&](const std::tuple<int, int>& t) { enter(s, (int)out.size()); out.push_back({std::get<0>(t), std::get<1>(t)}); leave(s); return continue_msg(); };
            function_node<std::tuple<int, int>, continue_msg, rejecting> S(g, serial, body);
            join_node<std::tuple<int, int>, queueing> jq(g); join_node<std::tuple<int, int>, key_matching<int>> jk(g, [](const int& v) { return v % 10; }, [](const int& v) { return v % 10; }); join_node<std::tuple<int, int>, reserving> jr(g);
            queue_node<int> q0(g), q1(g); int mode = streq(k, "joinq") ? 0 : streq(k, "joink") ? 1 : 2;
            if (mode == 0) make_edge(jq, S); else if (mode == 1) make_edge(jk, S); else { make_edge(q0, input_port<0>(jr)); make_edge(q1, input_port<1>(jr)); make_edge(jr, S); }
            auto put = [&](int port, int v) { bool ok = mode == 0 ? (port ? input_port<1>(jq).try_put(v) : input_port<0>(jq).try_put(v)) : mode == 1 ? (port ? input_port<1>(jk).try_put(v) : input_port<0>(jk).try_put(v)) : (port ? q1.try_put(v) : q0.try_put(v)); if (!ok) vf_fail("port %d rejected message %d", port, v); };
            auto ids = gated(1, initext, [&](int) { put(1, mode == 1 ? 22 : 21); put(1, mode == 1 ? 21 : 22); });    // key_matching: keys arrive in the opposite order on port 1
            vf_window(1); vf_gate_open(); put(0, 11); put(0, 12); g.wait_for_all(); join_all(ids); g.wait_for_all(); quiet = true; vf_window(0);
            if (out.size() != 2) vf_fail("join_node emitted %zu tuples for two complete pairs", out.size());
            if (mode == 1) { std::set<int> a, b; for (auto& t : out) { if (t.first % 10 != t.second % 10) vf_fail("key_matching tuple (%d,%d) mixes keys", t.first, t.second); a.insert(t.first); b.insert(t.second); } if (a.size() != 2 || b.size() != 2) vf_fail("key_matching join used a message twice"); }
            else { if (out[0] != std::make_pair(11, 21) || out[1] != std::make_pair(12, 22)) vf_fail("join_node tuples (%d,%d) (%d,%d): the i-th tuple must hold the i-th message of every port", out[0].first, out[0].second, out[1].first, out[1].second); } }
        else if (streq(k, "bufsplit")) {   // buffer_node with two rejecting successors: each message to exactly one of them
            buffer_node<int> B(g); function_node<int, continue_msg, rejecting> F(g, serial, [&](int x) { enter(f, x); leave(f); return continue_msg(); }); function_node<int, continue_msg, rejecting> F2(g, serial, [&](int x) { enter(f2, x); leave(f2); return continue_msg(); });
            make_edge(B, F); make_edge(B, F2); auto ids = gated(1, initext, [&](int) { B.try_put(2); });
            vf_window(1); vf_gate_open(); B.try_put(0); B.try_put(1); g.wait_for_all(); join_all(ids); g.wait_for_all(); quiet = true; vf_window(0);
            std::set<int> got; for (auto& kv : f.cnt) { if (kv.second != 1) vf_fail("F processed %d %d times", kv.first, kv.second); got.insert(kv.first); } for (auto& kv : f2.cnt) { if (kv.second != 1 || got.count(kv.first)) vf_fail("buffer_node delivered message %d twice", kv.first); got.insert(kv.first); }
            if (got.size() != 3) vf_fail("buffer_node with two rejecting successors: %zu of 3 messages were delivered", got.size()); }
        else if (streq(k, "async")) {   // async_node completed by a foreign thread
            using AN = async_node<int, int>; AN::gateway_type* gw = nullptr; int work = -1, released = 0;
            AN A(g, unlimited, [&](const int& x, AN::gateway_type& gwy) { f.limit = 0; enter(f, x); gwy.reserve_wait(); gw = &gwy; work = x; leave(f); });
            function_node<int, continue_msg> S(g, serial, [&](int x) { enter(s, x); leave(s); return continue_msg(); }); make_edge(A, S);
            auto ids = gated(1, initext, [&](int) { while (work < 0) vf_yield(); if (!gw->try_put(work + 1000)) vf_fail("gateway try_put was rejected"); released = 1; gw->release_wait(); });
            vf_window(1); vf_gate_open(); A.try_put(7); g.wait_for_all();
            if (!released) vf_fail("wait_for_all returned although a reserve_wait is not yet released"); if (s.cnt[1007] != 1) vf_fail("wait_for_all returned before the message submitted through the gateway was processed");
            join_all(ids); quiet = true; vf_window(0); }
        else if (streq(k, "seq")) {   // sequencer fed by two threads in the wrong order
            sequencer_node<int> Sq(g, [](const int& v) -> size_t { return (size_t)v; }); function_node<int, continue_msg, rejecting> F(g, serial, [&](int x) { enter(f, x); leave(f); return continue_msg(); }); make_edge(Sq, F);
            auto ids = gated(1, initext, [&](int) { Sq.try_put(1); Sq.try_put(0); });
            vf_window(1); vf_gate_open(); Sq.try_put(3); Sq.try_put(2); g.wait_for_all(); join_all(ids); g.wait_for_all(); quiet = true; vf_window(0);
            if (f.order.size() != 4) vf_fail("sequencer_node forwarded %zu of 4 items", f.order.size()); for (int i = 0; i < 4; i++) if (f.order[i] != i) vf_fail("sequencer_node forwarded item %d at position %d", f.order[i], i); }
        else if (streq(k, "cont2")) {   // continue_node with two predecessors signalled from two threads: one body per complete round of signals
            NL cn{"C", 0};   /* a continue_node has no concurrency limit: the bodies of two complete rounds may overlap */
            broadcast_node<continue_msg> A(g), B(g); int runs = 0; continue_node<continue_msg> C(g, [&](const continue_msg&) { int r = ++runs; enter(cn, r); leave(cn); return continue_msg(); }); make_edge(A, C); make_edge(B, C);
            auto ids = gated(1, initext, [&](int) { B.try_put(continue_msg()); B.try_put(continue_msg()); });
            vf_window(1); vf_gate_open(); A.try_put(continue_msg()); A.try_put(continue_msg()); join_all(ids); g.wait_for_all(); quiet = true; vf_window(0);
            if (runs != 2) vf_fail("continue_node with two predecessors ran %d times for two complete rounds of signals", runs); }
        else if (streq(k, "mfn")) {   // multifunction_node (serial, queueing) fed by two threads, routing to two ports
            using MF = multifunction_node<int, std::tuple<int, int>>; std::vector<int> even, odd;
            MF M(g, serial, [&](const int& v, MF::output_ports_type& ports) { enter(f, v); if (v % 2 == 0) std::get<0>(ports).try_put(v); else std::get<1>(ports).try_put(v); leave(f); });
            function_node<int, continue_msg> E(g, serial, [&](int v) { even.push_back(v); return continue_msg(); }), O(g, serial, [&](int v) { odd.push_back(v); return continue_msg(); }); make_edge(output_port<0>(M), E); make_edge(output_port<1>(M), O);
            auto ids = gated(1, initext, [&](int) { if (!M.try_put(1) || !M.try_put(2)) vf_fail("queueing multifunction_node rejected"); });
            vf_window(1); vf_gate_open(); if (!M.try_put(3) || !M.try_put(4)) vf_fail("queueing multifunction_node rejected"); join_all(ids); g.wait_for_all(); quiet = true; vf_window(0);
            acc = {1, 2, 3, 4}; once(f, acc); std::sort(even.begin(), even.end()); std::sort(odd.begin(), odd.end()); if (even != std::vector<int>{2, 4} || odd != std::vector<int>{1, 3}) vf_fail("multifunction_node ports received %zu even and %zu odd messages", even.size(), odd.size()); }
        else if (streq(k, "bcast")) {   // broadcast_node put from two threads: every successor gets every message once
            broadcast_node<int> Bn(g); s.limit = 0; f.limit = 0;
            function_node<int, continue_msg> F1(g, unlimited, [&](int v) { enter(f, v); leave(f); return continue_msg(); }), F2(g, serial, [&](int v) { enter(s, v); leave(s); return continue_msg(); }); make_edge(Bn, F1); make_edge(Bn, F2);
            auto ids = gated(1, initext, [&](int) { Bn.try_put(1); Bn.try_put(2); });
            vf_window(1); vf_gate_open(); Bn.try_put(3); join_all(ids); g.wait_for_all(); quiet = true; vf_window(0); acc = {1, 2, 3}; once(f, acc); once(s, acc); }
        else if (streq(k, "inputn")) {   // input_node in front of a rejecting serial node while another thread puts into the same node
            int next = 0; input_node<int> In(g, [&](tbb::flow_control& fc) -> int { if (next == 3) { fc.stop(); return 0; } return 100 + next++; });
            function_node<int, continue_msg, rejecting> F(g, serial, [&](int v) { enter(f, v); leave(f); return continue_msg(); }); make_edge(In, F); bool ok = false;
            auto ids = gated(1, initext, [&](int) { ok = F.try_put(7); });
            vf_window(1); vf_gate_open(); In.activate(); join_all(ids); g.wait_for_all(); quiet = true; vf_window(0);
            acc = {100, 101, 102}; if (ok) acc.insert(7); else rejected++; once(f, acc); }
        else if (streq(k, "wonce") || streq(k, "owrite")) {   // write_once_node / overwrite_node written by two threads at once, one successor attached before and one after
            bool once = streq(k, "wonce"); write_once_node<int> wo(g); overwrite_node<int> ow(g); std::vector<int> got1, got2;
            function_node<int, continue_msg> S1(g, serial, [&](int v) { got1.push_back(v); vf_point(); return continue_msg(); }), S2(g, serial, [&](int v) { got2.push_back(v); vf_point(); return continue_msg(); });
            if (once) make_edge(wo, S1); else make_edge(ow, S1);
            static int r1, r2; r1 = r2 = -1;
            auto ids = gated(1, initext, [&](int) { r2 = once ? wo.try_put(2) : ow.try_put(2); });
            vf_window(1); vf_gate_open(); r1 = once ? wo.try_put(1) : ow.try_put(1); join_all(ids); g.wait_for_all();
            int cur = -1; bool has = once ? wo.try_get(cur) : ow.try_get(cur); if (!has) vf_fail("%s holds no value after two puts", k);
            if (once) { if (r1 + r2 != 1) vf_fail("write_once_node accepted %d of two concurrent first puts", r1 + r2); int first = r1 ? 1 : 2; if (cur != first) vf_fail("write_once_node holds %d, the accepted put was %d", cur, first);
                if (got1.size() != 1 || got1[0] != first) vf_fail("write_once_node delivered %zu values to its successor (first %d), exactly the accepted value %d was expected", got1.size(), got1.empty() ? -1 : got1[0], first); }
            else { if (!r1 || !r2) vf_fail("overwrite_node rejected a put"); if (got1.size() != 2) vf_fail("overwrite_node delivered %zu of 2 values to its successor", got1.size()); if (got1.back() != cur && got1[0] != cur) vf_fail("overwrite_node holds %d which it never delivered", cur); }
            if (once) make_edge(wo, S2); else make_edge(ow, S2); g.wait_for_all(); quiet = true; vf_window(0);
            if (got2.size() != 1 || got2[0] != cur) vf_fail("%s delivered %zu values (first %d) to a successor attached later, the stored value %d was expected", k, got2.size(), got2.empty() ? -1 : got2[0], cur);
            vf_outcome("cur=%d r=%d%d ", cur, r1, r2); }
        else if (streq(k, "ow_register")) {   // overwrite_node holding a value: one thread attaches a successor while another thread puts a newer value - the new successor must end up with the latest value
            overwrite_node<int> ow(g); std::vector<int> got; function_node<int, continue_msg> S1(g, serial, [&](int v) { got.push_back(v); vf_point(); return continue_msg(); });
            ow.try_put(1); static int r2; r2 = -1;
            auto ids = gated(1, initext, [&](int) { r2 = ow.try_put(2); });
            vf_window(1); vf_gate_open(); make_edge(ow, S1); join_all(ids); g.wait_for_all(); quiet = true; vf_window(0);
            int cur = -1; if (!ow.try_get(cur) || cur != 2 || !r2) vf_fail("overwrite_node holds %d after put(1), put(2)", cur);
            if (got.empty() || got.back() != 2) vf_fail("a successor attached to an overwrite_node while a newer value was put ended up with %d as its last value (received %zu values); the node holds %d", got.empty() ? -1 : got.back(), got.size(), cur);
            for (size_t i = 0; i < got.size(); i++) for (size_t j = i + 1; j < got.size(); j++) if (got[i] == got[j]) vf_fail("value %d delivered twice to the new successor", got[i]);
            vf_outcome("got=%zu ", got.size()); }
        else vf_fail("unknown kind");
        vf_outcome("rejected=%d F:%s F2:%s S:%s", rejected, ord(f).c_str(), ord(f2).c_str(), ord(s).c_str());
    });
    vf_liveness(0);
}
int main(int argc, char** argv) { return vf_main(argc, argv, scenario); }
