// VF-BUILD: tbb access noinstr
// C11 (sequential leg, huge sizes) - growth calls whose sizes cross 2^31 and 2^32: the claimed index range, size(), the segments that get
// allocated and the number of element constructions must be right where 32-bit truncation would bite.  One-byte elements; the
// allocator only reserves address space (mmap PROT_NONE) and its construct/destroy only count, so no memory is touched.
// case = (operation, n, start size):  grow_to_at_least(n) / grow_to_at_least(n, value) / grow_by(n - start) / resize-like sequence of two calls
#include <oneapi/tbb/concurrent_vector.h>
#include "vfh.h"
#include <sys/mman.h>
static unsigned long long constructed, destroyed, reserved_bytes; static std::vector<std::pair<char*, size_t>>* blocks;
template <class T> struct HugeAlloc { using value_type = T; HugeAlloc() {} template <class U> HugeAlloc(const HugeAlloc<U>&) {}
    T* allocate(size_t n) { if (sizeof(T) != 1) return (T*)malloc(n * sizeof(T)); size_t bytes = n * sizeof(T); void* p = mmap(nullptr, bytes ? bytes : 1, PROT_NONE, MAP_PRIVATE | MAP_ANONYMOUS | MAP_NORESERVE, -1, 0); if (p == MAP_FAILED) throw std::bad_alloc();
        if (sizeof(T) == 1) { blocks->push_back({(char*)p, bytes}); reserved_bytes += bytes; } return (T*)p; }
    void deallocate(T* p, size_t n) { if (sizeof(T) != 1) { free(p); return; } munmap(p, n * sizeof(T) ? n * sizeof(T) : 1); if (sizeof(T) == 1) for (auto& b : *blocks) if (b.first == (char*)p) b.second = 0; }
    template <class U, class... A> void construct(U* p, A&&... a) { if (sizeof(U) == 1) constructed++; else ::new ((void*)p) U(std::forward<A>(a)...); }
    template <class U> void destroy(U* p) { if (sizeof(U) == 1) destroyed++; else p->~U(); }
    template <class U> bool operator==(const HugeAlloc<U>&) const { return true; } template <class U> bool operator!=(const HugeAlloc<U>&) const { return false; } };
typedef tbb::concurrent_vector<char, HugeAlloc<char>> V;
static const unsigned long long NS[] = {(1ull << 31) - 1, 1ull << 31, (1ull << 31) + 1, (1ull << 32) - 1, 1ull << 32, (1ull << 32) + 3, 3ull << 30};
static bool inside(const char* p) { for (auto& b : *blocks) if (b.second && p >= b.first && p < b.first + b.second) return true; return false; }
static void scenario(long c) {
    int op = (int)(c % 3); c /= 3; int st = (int)(c % 2); c /= 2; unsigned long long n = NS[c]; size_t start = st ? 5 : 0;
    std::vector<std::pair<char*, size_t>> bl; blocks = &bl; constructed = destroyed = reserved_bytes = 0;
    { V v; if (start) v.grow_by(start);
      unsigned long long c0 = constructed; const char* what = op == 0 ? "grow_to_at_least(n)" : op == 1 ? "grow_to_at_least(n, value)" : "grow_by(n - size)";
      V::iterator it = op == 0 ? v.grow_to_at_least((size_t)n) : op == 1 ? v.grow_to_at_least((size_t)n, 'x') : v.grow_by((size_t)(n - start));
      if (v.size() != n) vf_fail("%s with n=%llu from size %zu: size() is %zu", what, n, start, v.size());
      if (constructed - c0 != n - start) vf_fail("%s with n=%llu from size %zu: %llu elements were constructed, %llu were claimed", what, n, start, constructed - c0, n - start);
      if (v.capacity() < n) vf_fail("%s with n=%llu: capacity() %zu is below size()", what, n, v.capacity());
      if (reserved_bytes < n) vf_fail("%s with n=%llu: only %llu bytes of segments were allocated", what, n, reserved_bytes);
      for (unsigned long long i : {0ull, (unsigned long long)start, n / 2, (1ull << 31) - 1, 1ull << 31, (1ull << 32) - 1, 1ull << 32, n - 1}) if (i < n && !inside(&v[(size_t)i])) vf_fail("%s with n=%llu: element %llu lies outside every allocated segment", what, n, i);
      if (op != 2 && (size_t)(it - v.begin()) != (start < n ? start : (size_t)n)) vf_fail("%s with n=%llu from size %zu returned an iterator to index %zu", what, n, start, (size_t)(it - v.begin()));
      if (&v[(size_t)n - 1] - &v[(size_t)n - 2] != 1 && V::segment_index_of((size_t)n - 1) == V::segment_index_of((size_t)n - 2)) vf_fail("neighbours in one segment are not adjacent"); }
    if (destroyed != constructed) vf_fail("%llu elements constructed, %llu destroyed", constructed, destroyed);
    for (auto& b : bl) if (b.second) vf_fail("a segment was not deallocated");
    vf_outcome("op=%d n=%llu start=%zu", op, n, start);
}
int main(int argc, char** argv) { long nn = 7; for (int i = 1; i + 1 < argc; i++) if (!strcmp(argv[i], "-p") && !strncmp(argv[i + 1], "nsizes=", 7)) nn = atoi(argv[i + 1] + 7); return vf_main_cases(argc, argv, 3 * 2 * nn, scenario); }
