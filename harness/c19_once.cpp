// VF-BUILD: tbb
// C19 (collaborative_call_once) - exactly one successful run per flag; every caller returns after it and sees its effects;
// a thrown exception reaches exactly one caller and the flag is retried.  Real scheduler under vsched.
// -p cancelled=1 (caller 0 calls from inside a task whose task_group has been cancelled)
// -p callers=N (2..3)  -p mask=M (attempt i of the function throws iff bit i of M)  -p inner=1 (the function runs a task_group, so waiting callers moonlight)
#include <oneapi/tbb/collaborative_call_once.h>
#include <oneapi/tbb/task_group.h>
#include <oneapi/tbb/task_arena.h>
#include <oneapi/tbb/global_control.h>
#include "vfh.h"
using namespace vfh;
struct Boom { int attempt; };
static void scenario() {
    int callers = (int)vf_param_int("callers", 2), mask = (int)vf_param_int("mask", 0), inner = (int)vf_param_int("inner", 0), cancelled = (int)vf_param_int("cancelled", 0);
    tbb::global_control gc(tbb::global_control::max_allowed_parallelism, 2);
    tbb::collaborative_once_flag flag; int attempts = 0, successes = 0, payload = 0, inner_done = 0, live = 0;
    std::vector<int> caught(callers, -1), returned(callers, 0), saw(callers, 0);
    auto fn = [&] { int a = attempts++; if (++live != 1) vf_fail("two invocations of the once-function run at the same time"); vf_point();
        if (inner) { int before = inner_done; tbb::task_group tg; tg.run([&] { inner_done++; }); tg.run([&] { inner_done++; }); tg.wait();
            if (inner_done != before + 2) vf_fail("the nested tasks of the once-function were skipped (%d of 2 ran): the function ran under the cancelled task group of its caller", inner_done - before); }
        if (mask >> a & 1) { --live; throw Boom{a}; }
        vf_plain_write(&payload); payload = 42; successes++; --live; };
    vf_liveness(1);
    auto ids = gated(callers, [&](int) { (void)tbb::this_task_arena::max_concurrency(); }, [&](int i) {
        try { if (cancelled && i == 0) { tbb::task_group outer; outer.run_and_wait([&] { outer.cancel(); tbb::collaborative_call_once(flag, fn); }); }   /* caller 0 calls from a task whose group is already cancelled: the function is not part of that group */
              else tbb::collaborative_call_once(flag, fn);
              returned[i] = 1; vf_plain_read(&payload); saw[i] = payload; if (successes != 1) vf_fail("caller %d returned but %d successful runs so far", i, successes); }
        catch (Boom& b) { caught[i] = b.attempt; } });
    open_window_and_join(ids);
    vf_liveness(0);
    int ncaught = 0; for (int i = 0; i < callers; i++) { if (caught[i] >= 0) { ncaught++; for (int j = 0; j < i; j++) if (caught[j] == caught[i]) vf_fail("exception of attempt %d delivered to two callers", caught[i]); }
        if (returned[i] && saw[i] != 42) vf_fail("caller %d returned without seeing the effects of the successful run", i); }
    int thrown = 0; for (int a = 0; a < attempts; a++) if (mask >> a & 1) thrown++;
    if (ncaught != thrown) vf_fail("%d exceptions thrown, %d delivered", thrown, ncaught);
    if (successes > 1) vf_fail("function completed successfully %d times", successes);
    if (successes == 0 && ncaught != callers) vf_fail("no successful run but only %d of %d callers got an exception", ncaught, callers);
    if (successes == 1) { bool again = false; tbb::collaborative_call_once(flag, [&] { again = true; }); if (again) vf_fail("flag ran a function again after success"); }
    else { bool again = false; tbb::collaborative_call_once(flag, [&] { again = true; }); if (!again) vf_fail("flag not reset after every attempt threw"); }
    vf_outcome("attempts=%d succ=%d caught=%d", attempts, successes, ncaught);
}
int main(int argc, char** argv) { return vf_main(argc, argv, scenario); }
