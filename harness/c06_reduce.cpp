// VF-BUILD: vtbb
// C06 (reduce / deterministic reduce / scan) on the abstract scheduler.  Operands live in the free monoid (value = list of
// element ids, join = concatenation), so any reordering, loss or duplication changes the result.  deterministic_reduce records
// its split/join tree as a term: for one (range, grain) the term must be identical over all schedules and all P.
// scan: the final pass runs exactly once per element with the sequential incoming prefix; the return value is the full fold.
#include <oneapi/tbb/parallel_reduce.h>
#include <oneapi/tbb/parallel_scan.h>
#include <oneapi/tbb/blocked_range.h>
#include "vtbb.h"
#include "vfh.h"
#include <map>
typedef std::vector<int> List;
static List cat(const List& a, const List& b) { List r = a; r.insert(r.end(), b.begin(), b.end()); return r; }
struct ImpBody { List v; int id; static int live, made; ImpBody() : id(made++) { live++; } ImpBody(ImpBody&, tbb::split) : id(made++) { live++; } ~ImpBody() { live--; }
    void operator()(const tbb::blocked_range<int>& r) { for (int i = r.begin(); i < r.end(); i++) v.push_back(i); vtbb::nested(); vtbb::interleave(); } void join(ImpBody& rhs) { v = cat(v, rhs.v); } };
int ImpBody::live = 0, ImpBody::made = 0;
template <class F> static void with_part(int part, F f) { if (part == 0) { tbb::simple_partitioner p; f(p); } else if (part == 1) { tbb::auto_partitioner p; f(p); } else if (part == 2) { tbb::static_partitioner p; f(p); } else { tbb::affinity_partitioner p; f(p); } }
static void check_seq(const List& r, int n, const char* what) { if ((int)r.size() != n) vf_fail("%s: result has %zu operands, expected %d", what, r.size(), n); for (int i = 0; i < n; i++) if (r[i] != i) vf_fail("%s: operand %d at position %d (operands reordered, lost or duplicated)", what, r[i], i); }
// ---- cases
static const int NMAX = 13, GMAX = 3;
static void c_reduce(long c) { int form = c % 2; c /= 2; int part = c % 4; c /= 4; int P = 1 + c % 3; c /= 3; int g = 1 + c % GMAX; c /= GMAX; int n = (int)c;
    vtbb::init(P); tbb::blocked_range<int> range(0, n, g);
    if (form == 0) { List r; with_part(part, [&](auto& p) { r = tbb::parallel_reduce(range, List(), [](const tbb::blocked_range<int>& rg, List v) { for (int i = rg.begin(); i < rg.end(); i++) v.push_back(i); vtbb::nested(); vtbb::interleave(); return v; }, [](const List& a, const List& b) { return cat(a, b); }, p); }); check_seq(r, n, "parallel_reduce (functional form)"); }
    else { ImpBody::live = ImpBody::made = 0; { ImpBody b; with_part(part, [&](auto& p) { tbb::parallel_reduce(range, b, p); }); check_seq(b.v, n, "parallel_reduce (body form)"); } if (ImpBody::live != 0) vf_fail("parallel_reduce: %d split bodies not destroyed", ImpBody::live); }
    vtbb::finish(); vf_outcome("reduce form=%d part=%d P=%d n=%d g=%d steals=%ld bodies=%d", form, part, P, n, g, vtbb::stats().steals, ImpBody::made); }
static std::map<long, std::string>* canon;
// every overload of parallel_deterministic_reduce: functional / Body form x partitioner argument (none, simple, static) x with / without a context
struct DetBody { std::string v; DetBody() {} DetBody(DetBody&, tbb::split) {} void operator()(const tbb::blocked_range<int>& rg) { vtbb::nested(); vtbb::interleave(); v = v + "[" + std::to_string(rg.begin()) + "," + std::to_string(rg.end()) + ")"; } void join(DetBody& r) { v = "(" + v + "+" + r.v + ")"; } };
static void c_det(long c) { long key = c; int part = c % 2; c /= 2; int ovl = c % 6; c /= 6; int g = 1 + c % GMAX; c /= GMAX; int n = (int)c;   /* ovl: bit0 Body form, bit1 explicit context; ovl>=4: no partitioner argument (bit0 Body form, part = with context) */ std::string term[4]; const char* pn = part ? "static_partitioner" : "simple_partitioner";
    for (int P = 1; P <= 3; P++) { vtbb::init(P); tbb::blocked_range<int> range(0, n, g); auto body = [](const tbb::blocked_range<int>& rg, std::string v) { vtbb::nested(); vtbb::interleave(); return v + "[" + std::to_string(rg.begin()) + "," + std::to_string(rg.end()) + ")"; }; auto join = [](const std::string& a, const std::string& b) { return "(" + a + "+" + b + ")"; };
        bool bodyform = ovl & 1, ctx = (ovl >> 1) & 1, nopart = ovl >= 4; if (nopart) { bodyform = ovl & 1; ctx = part; } tbb::task_group_context tgc;
        if (!bodyform) { if (nopart) term[P] = ctx ? tbb::parallel_deterministic_reduce(range, std::string(), body, join, tgc) : tbb::parallel_deterministic_reduce(range, std::string(), body, join);
            else if (part == 0) term[P] = ctx ? tbb::parallel_deterministic_reduce(range, std::string(), body, join, tbb::simple_partitioner(), tgc) : tbb::parallel_deterministic_reduce(range, std::string(), body, join, tbb::simple_partitioner());
            else term[P] = ctx ? tbb::parallel_deterministic_reduce(range, std::string(), body, join, tbb::static_partitioner(), tgc) : tbb::parallel_deterministic_reduce(range, std::string(), body, join, tbb::static_partitioner()); }
        else { DetBody b; if (nopart) { if (ctx) tbb::parallel_deterministic_reduce(range, b, tgc); else tbb::parallel_deterministic_reduce(range, b); }
            else if (part == 0) { if (ctx) tbb::parallel_deterministic_reduce(range, b, tbb::simple_partitioner(), tgc); else tbb::parallel_deterministic_reduce(range, b, tbb::simple_partitioner()); }
            else { if (ctx) tbb::parallel_deterministic_reduce(range, b, tbb::static_partitioner(), tgc); else tbb::parallel_deterministic_reduce(range, b, tbb::static_partitioner()); } term[P] = b.v; }
        if (nopart) pn = "default partitioner";
        vtbb::finish();
        // schedule independence for this (range, grain, P): every execution of this case must produce the same tree
        long k2 = key * 4 + P; auto it = canon->find(k2); if (it == canon->end()) (*canon)[k2] = term[P]; else if (it->second != term[P]) vf_fail("parallel_deterministic_reduce (%s) n=%d g=%d P=%d: the split/join tree depends on the schedule: %s vs %s", pn, n, g, P, it->second.c_str(), term[P].c_str()); }
    for (int P = 2; P <= 3; P++) if (term[P] != term[1]) { if (part == 0 || ovl >= 4) vf_fail("parallel_deterministic_reduce (simple_partitioner) n=%d g=%d: the split/join tree differs between 1 and %d threads: %s vs %s", n, g, P, term[1].c_str(), term[P].c_str());
        vf_fail("parallel_deterministic_reduce with static_partitioner: the split/join tree depends on the number of threads (n=%d g=%d: %s with 1 thread, %s with %d)", n, g, term[1].c_str(), term[P].c_str(), P); }
    vf_outcome("det part=%d n=%d g=%d term=%s", part, n, g, term[1].c_str()); }
struct ScanBody { List sum; std::vector<int>* finals; std::vector<List>* prefixes; ScanBody(std::vector<int>* f, std::vector<List>* p) : finals(f), prefixes(p) {} ScanBody(ScanBody& b, tbb::split) : finals(b.finals), prefixes(b.prefixes) {}
    template <class Tag> void operator()(const tbb::blocked_range<int>& r, Tag) { for (int i = r.begin(); i < r.end(); i++) { if (Tag::is_final_scan()) { (*finals)[i]++; (*prefixes)[i] = sum; } sum.push_back(i); } vtbb::nested(); vtbb::interleave(); }
    void reverse_join(ScanBody& a) { sum = cat(a.sum, sum); } void assign(ScanBody& b) { sum = b.sum; } };
static void c_scan(long c) { int form = c % 2; c /= 2; int part = c % 2; c /= 2; int P = 1 + c % 3; c /= 3; int g = 1 + c % GMAX; c /= GMAX; int n = (int)c;
    vtbb::init(P); tbb::blocked_range<int> range(0, n, g); std::vector<int> finals(n, 0); std::vector<List> prefixes(n); List total;
    if (form == 0) { ScanBody b(&finals, &prefixes); if (part == 0) tbb::parallel_scan(range, b, tbb::simple_partitioner()); else tbb::parallel_scan(range, b, tbb::auto_partitioner()); total = b.sum; }
    else { auto scan = [&](const tbb::blocked_range<int>& r, List s, bool fin) { for (int i = r.begin(); i < r.end(); i++) { if (fin) { finals[i]++; prefixes[i] = s; } s.push_back(i); } vtbb::nested(); vtbb::interleave(); return s; }; auto rj = [](const List& a, const List& b) { return cat(a, b); };
        if (part == 0) total = tbb::parallel_scan(range, List(), scan, rj, tbb::simple_partitioner()); else total = tbb::parallel_scan(range, List(), scan, rj, tbb::auto_partitioner()); }
    vtbb::finish(); check_seq(total, n, "parallel_scan (returned total)");
    for (int i = 0; i < n; i++) { if (finals[i] != 1) vf_fail("parallel_scan: final pass ran %d times for element %d", finals[i], i); check_seq(prefixes[i], i, "parallel_scan (incoming prefix)"); }
    vf_outcome("scan form=%d part=%d P=%d n=%d g=%d steals=%ld", form, part, P, n, g, vtbb::stats().steals); }
// ---- every overload of parallel_reduce (functional / Body form x {no partitioner, simple, auto, static, affinity} x with / without context) and of parallel_scan
static void c_ovl(long c) { int P = 1 + c % 3; c /= 3; int n = (int)(c % 6); c /= 6; int ov = (int)c;   // ov 0..19 reduce, 20..25 scan
    vtbb::init(P); tbb::blocked_range<int> range(0, n, 1); tbb::task_group_context ctx; tbb::affinity_partitioner ap; tbb::simple_partitioner sp; tbb::auto_partitioner aup; tbb::static_partitioner stp;
    auto fb = [](const tbb::blocked_range<int>& rg, List v) { for (int i = rg.begin(); i < rg.end(); i++) v.push_back(i); vtbb::nested(); vtbb::interleave(); return v; }; auto jn = [](const List& a, const List& b) { return cat(a, b); };
    if (ov < 20) { bool bodyform = ov >= 10; int k = ov % 10; bool wc = k >= 5; int pk = k % 5; List r;
        if (!bodyform) { if (!wc) { r = pk == 0 ? tbb::parallel_reduce(range, List(), fb, jn) : pk == 1 ? tbb::parallel_reduce(range, List(), fb, jn, sp) : pk == 2 ? tbb::parallel_reduce(range, List(), fb, jn, aup) : pk == 3 ? tbb::parallel_reduce(range, List(), fb, jn, stp) : tbb::parallel_reduce(range, List(), fb, jn, ap); }
            else { r = pk == 0 ? tbb::parallel_reduce(range, List(), fb, jn, ctx) : pk == 1 ? tbb::parallel_reduce(range, List(), fb, jn, sp, ctx) : pk == 2 ? tbb::parallel_reduce(range, List(), fb, jn, aup, ctx) : pk == 3 ? tbb::parallel_reduce(range, List(), fb, jn, stp, ctx) : tbb::parallel_reduce(range, List(), fb, jn, ap, ctx); } }
        else { ImpBody::live = ImpBody::made = 0; { ImpBody b;
            if (!wc) { if (pk == 0) tbb::parallel_reduce(range, b); else if (pk == 1) tbb::parallel_reduce(range, b, sp); else if (pk == 2) tbb::parallel_reduce(range, b, aup); else if (pk == 3) tbb::parallel_reduce(range, b, stp); else tbb::parallel_reduce(range, b, ap); }
            else { if (pk == 0) tbb::parallel_reduce(range, b, ctx); else if (pk == 1) tbb::parallel_reduce(range, b, sp, ctx); else if (pk == 2) tbb::parallel_reduce(range, b, aup, ctx); else if (pk == 3) tbb::parallel_reduce(range, b, stp, ctx); else tbb::parallel_reduce(range, b, ap, ctx); } r = b.v; }
            if (ImpBody::live != 0) vf_fail("parallel_reduce overload %d: %d split bodies not destroyed", ov, ImpBody::live); }
        vtbb::finish(); check_seq(r, n, "parallel_reduce (overload sweep)"); vf_outcome("ovl-reduce %d P=%d n=%d", ov, P, n); return; }
    int so = ov - 20; std::vector<int> finals(n, 0); std::vector<List> prefixes(n); List total;
    if (so < 3) { ScanBody b(&finals, &prefixes); if (so == 0) tbb::parallel_scan(range, b); else if (so == 1) tbb::parallel_scan(range, b, sp); else tbb::parallel_scan(range, b, aup); total = b.sum; }
    else { auto scan = [&](const tbb::blocked_range<int>& r, List s2, bool fin) { for (int i = r.begin(); i < r.end(); i++) { if (fin) { finals[i]++; prefixes[i] = s2; } s2.push_back(i); } vtbb::nested(); vtbb::interleave(); return s2; };
        total = so == 3 ? tbb::parallel_scan(range, List(), scan, jn) : so == 4 ? tbb::parallel_scan(range, List(), scan, jn, sp) : tbb::parallel_scan(range, List(), scan, jn, aup); }
    vtbb::finish(); check_seq(total, n, "parallel_scan (overload sweep, returned total)"); for (int i = 0; i < n; i++) { if (finals[i] != 1) vf_fail("parallel_scan overload %d: final pass ran %d times for element %d", so, finals[i], i); check_seq(prefixes[i], i, "parallel_scan (overload sweep, prefix)"); }
    vf_outcome("ovl-scan %d P=%d n=%d", so, P, n); }
static long N1, N2, N3, N4;
static void scenario(long c) { if (c < N1) c_reduce(c); else if (c < N1 + N2) c_det(c - N1); else if (c < N1 + N2 + N3) c_scan(c - N1 - N2); else c_ovl(c - N1 - N2 - N3); }
int main(int argc, char** argv) { canon = new std::map<long, std::string>(); N1 = 2L * 4 * 3 * GMAX * (NMAX + 1); N2 = 2L * 6 * GMAX * (NMAX + 4); N3 = 2L * 2 * 3 * GMAX * (NMAX + 1); N4 = 3L * 6 * 26; return vf_main_cases(argc, argv, N1 + N2 + N3 + N4, scenario); }
