// VF-BUILD: vtbb
// C15 - contracts of the buffering / ordering / joining / limiting flow-graph nodes, on the abstract scheduler vtbb.
//  seq      : buffer_node / queue_node / priority_queue_node / sequencer_node driven by ALL legal operation sequences up to a depth over
//             {put, try_get, try_reserve, try_release, try_consume} against a reference model (conservation, FIFO, max-priority, sequence
//             order, reservation protocol, ring wrap and growth); the forwarder tasks the node spawns run at explorer-chosen moments.
//  seqr     : sequencer_node with a serial successor: every arrival order of tags 0..k-1 plus a duplicate / stale tag.
//  join     : join_node queueing / key_matching / reserving: every interleaving of the per-port arrival sequences, successor that rejects.
//  limiter  : limiter_node between a queue_node and a test receiver that accepts or rejects by explorer choice, puts racing decrements.
//  ow       : overwrite_node / write_once_node: puts, successors added before / between / after the puts, try_get.
//  route    : split_node, indexer_node, broadcast_node.
#include <oneapi/tbb/flow_graph.h>
#include "vtbb.h"
#include "vfh.h"
#include <memory>
#include <map>
#include <set>
#include <string>
#include <deque>
#include <functional>
using namespace tbb::flow; using tbb::detail::d2::graph_task; using tbb::detail::d2::SUCCESSFULLY_ENQUEUED;
static int DEPTH = 6; static std::vector<int> PREFILLS = {0, 3, 4, 7, 8};   // start states of the operation-sequence leg: items already buffered (capacity boundaries 4 and 8)
static void pump() { vtbb::interleave(); }                       // pending graph tasks may run now (explorer choice)
static std::string S(const std::vector<int>& v) { std::string s; for (int x : v) { s += std::to_string(x); s += ','; } return s; }

// ================================================================ seq: operation sequences on the four buffer kinds
enum { OP_P, OP_G, OP_R, OP_L, OP_C, OP_A, NOPS };   // OP_A: attach an accepting push successor (at most once per sequence)
struct FwdRecv : receiver<int> { graph& g; std::function<void(int)> on; FwdRecv(graph& gr) : g(gr) {} graph_task* try_put_task(const int& v) override { on(v); return SUCCESSFULLY_ENQUEUED; } graph& graph_reference() const override { return g; } };
static const int PRIO[] = {5, 1, 7, 3, 9, 2, 8, 4, 6, 0, 11, 10};        // values of successive puts for priority_queue_node (distinct)
static const int TAGS[] = {2, 0, 1, 1, 4, 3, 0, 6, 5, 2, 7, 8};          // tags of successive puts for sequencer_node (duplicates and stale tags)
struct Model { int kind; std::deque<int> q; std::multiset<int> ms; std::set<int> tags; int head = 0; bool holding = false; int held = 0; std::multiset<int> in, out;
    bool empty() const { return kind == 1 ? q.empty() : kind == 3 ? !tags.count(head) : ms.empty(); } };
static long seq_count(int depth) { long n = 1; for (int i = 0; i < depth; i++) n *= NOPS; return n; }
static void s_seq(long c) { int kind = (int)(c % 4); c /= 4; int prefill = PREFILLS[c % PREFILLS.size()]; c /= (long)PREFILLS.size(); int ops[16]; for (int i = 0; i < DEPTH; i++) { ops[i] = (int)(c % NOPS); c /= NOPS; }
    // legality: release/consume only while holding, reserve only while not holding; prune illegal sequences (cheap: before creating the graph)
    { bool h = false; int items = 0, na = 0; for (int i = 0; i < DEPTH; i++) { int o = ops[i]; if (o == OP_A && ++na > 1) return; if ((o == OP_L || o == OP_C) && !h) return; if (o == OP_R && h) return; if (o == OP_R) h = true; if (o == OP_L || o == OP_C) h = false; (void)items; } }
    static const char* KN[] = {"buffer", "queue", "priority_queue", "sequencer"}; vtbb::init(2); Model m; m.kind = kind; int nput = 0; std::string trace;
    { graph g; buffer_node<int> bn(g); queue_node<int> qn(g); priority_queue_node<int> pn(g); sequencer_node<int> sn(g, [](const int& v) -> size_t { return (size_t)(v % 100); });
      auto put = [&](int v) { return kind == 0 ? bn.try_put(v) : kind == 1 ? qn.try_put(v) : kind == 2 ? pn.try_put(v) : sn.try_put(v); };
      auto get = [&](int& v) { return kind == 0 ? bn.try_get(v) : kind == 1 ? qn.try_get(v) : kind == 2 ? pn.try_get(v) : sn.try_get(v); };
      auto reserve = [&](int& v) { return kind == 0 ? bn.try_reserve(v) : kind == 1 ? qn.try_reserve(v) : kind == 2 ? pn.try_reserve(v) : sn.try_reserve(v); };
      auto release = [&] { return kind == 0 ? bn.try_release() : kind == 1 ? qn.try_release() : kind == 2 ? pn.try_release() : sn.try_release(); };
      auto consume = [&] { return kind == 0 ? bn.try_consume() : kind == 1 ? qn.try_consume() : kind == 2 ? pn.try_consume() : sn.try_consume(); };
      auto expect_next = [&](int v, const char* what) {   // v was handed out by get/reserve: must be a legal choice for this kind
          if (kind == 1) { if (m.q.empty() || m.q.front() != v) vf_fail("queue_node %s returned %d but the oldest buffered item is %d [%s]", what, v, m.q.empty() ? -1 : m.q.front(), trace.c_str()); }
          else if (kind == 3) { if (v % 100 != m.head || !m.tags.count(m.head)) vf_fail("sequencer_node %s returned the item with tag %d but the next tag in sequence is %d [%s]", what, v % 100, m.head, trace.c_str()); }
          else { if (!m.ms.count(v)) vf_fail("%s_node %s returned %d which is not in the buffer [%s]", KN[kind], what, v, trace.c_str()); if (kind == 2 && v != *m.ms.rbegin()) vf_fail("priority_queue_node %s returned %d but %d with higher priority is buffered [%s]", what, v, *m.ms.rbegin(), trace.c_str()); } };
      auto remove = [&](int v) { if (kind == 1) m.q.pop_front(); else if (kind == 3) { m.tags.erase(m.head); m.head++; } else m.ms.erase(m.ms.find(v)); m.out.insert(v); };
      FwdRecv recv(g); recv.on = [&](int v) { trace += 'f'; if (m.holding && v == m.held) vf_fail("%s_node forwarded item %d to a successor while it is reserved by another consumer (it can now be consumed twice) [%s]", KN[kind], v, trace.c_str()); expect_next(v, "forward to a successor"); remove(v); };
      bool attached = false; std::vector<int> seq; for (int i = 0; i < prefill; i++) seq.push_back(OP_P); for (int i = 0; i < DEPTH; i++) seq.push_back(ops[i]);
      for (size_t i = 0; i < seq.size(); i++) { int o = seq[i]; trace += "PGRLCA"[o]; if ((int)i + 1 == prefill) trace += ':';
          if (o == OP_A) { attached = true; if (kind == 0) make_edge(bn, recv); else if (kind == 1) make_edge(qn, recv); else if (kind == 2) make_edge(pn, recv); else make_edge(sn, recv); pump(); continue; }
          if (o == OP_P) { int v = kind == 2 ? PRIO[nput % 12] : kind == 3 ? 100 * (nput + 1) + TAGS[nput % 12] : nput + 1; nput++; bool ok = put(v);
              if (kind == 3) { int tag = v % 100; bool should = tag >= m.head && !m.tags.count(tag); if (ok != should) vf_fail("sequencer_node try_put of tag %d returned %d (next tag to emit %d, tag %s buffered) [%s]", tag, ok, m.head, m.tags.count(tag) ? "already" : "not", trace.c_str()); if (ok) { m.tags.insert(tag); m.in.insert(v); } }
              else { if (!ok) vf_fail("%s_node rejected a put [%s]", KN[kind], trace.c_str()); m.in.insert(v); if (kind == 1) m.q.push_back(v); else m.ms.insert(v); } }
          else if (o == OP_G) { int v = -1; bool ok = get(v);
              if (ok) { if (m.holding && v == m.held) vf_fail("%s_node try_get returned item %d while it is reserved by another consumer (it can now be consumed twice) [%s]", KN[kind], v, trace.c_str()); expect_next(v, "try_get"); remove(v); }
              else if (!m.holding && !m.empty()) vf_fail("%s_node try_get failed although an item is available and nothing is reserved [%s]", KN[kind], trace.c_str()); }
          else if (o == OP_R) { int v = -1; bool ok = reserve(v); if (ok) { expect_next(v, "try_reserve"); m.holding = true; m.held = v; } else { if (!m.empty()) vf_fail("%s_node try_reserve failed although an item is available [%s]", KN[kind], trace.c_str()); break; /* the rest of the sequence assumed a reservation; the shorter sequence is enumerated separately */ } }
          else if (o == OP_L) { release(); m.holding = false; }
          else { consume(); m.holding = false; remove(m.held); }
          pump(); }
      if (m.holding) { release(); m.holding = false; }
      g.wait_for_all();
      if (attached && !m.empty()) vf_fail("%s_node: deliverable items stayed in the buffer after wait_for_all although an accepting successor is connected and nothing is reserved (a kept message must be offered again) [%s]", KN[kind], trace.c_str());
      for (;;) { int v = -1; if (!get(v)) break; expect_next(v, "try_get (final drain)"); remove(v); }
      if (kind != 3) { if (m.in != m.out) vf_fail("%s_node: %zu items were put but %zu came out (lost or duplicated) [%s]", KN[kind], m.in.size(), m.out.size(), trace.c_str()); }
      else { if (!m.empty()) vf_fail("sequencer_node holds the next tag %d but try_get failed [%s]", m.head, trace.c_str()); } }
    vtbb::finish(); vf_outcome("seq %s %s in=%zu out=%zu", KN[kind], trace.c_str(), m.in.size(), m.out.size());
}
// ================================================================ seqr: sequencer_node -> serial successor, all arrival orders
static void s_seqr(long c) { int k = 2 + (int)(c % 3); c /= 3; int rej = (int)(c % 2); c /= 2; int extra = (int)(c % 3); c /= 3; long perm = c;   // extra: 0 none, 1 duplicate of the first arrival later, 2 stale tag 0 at the end
    std::vector<int> tags; for (int i = 0; i < k; i++) tags.push_back(i); for (long p = perm, i = 0; i < k; i++) { int j = (int)(p % (k - i)); p /= (k - i); std::swap(tags[i], tags[i + j]); }
    long nperm = 1; for (int i = 2; i <= k; i++) nperm *= i; if (perm >= nperm) return;
    vtbb::init(2); std::vector<int> got; int live = 0;
    { graph g; sequencer_node<int> sn(g, [](const int& v) -> size_t { return (size_t)(v % 100); });
      auto body = [&](int v) { if (live) vf_fail("serial successor runs twice"); live++; got.push_back(v); pump(); live--; return continue_msg(); };
      function_node<int, continue_msg> Fq(g, serial, body); function_node<int, continue_msg, rejecting> Fr(g, serial, body); if (rej) make_edge(sn, Fr); else make_edge(sn, Fq);
      for (int i = 0; i < k; i++) { if (!sn.try_put(100 + tags[i])) vf_fail("sequencer_node rejected the first message with tag %d", tags[i]); pump(); if (extra == 1 && i == k / 2) { if (sn.try_put(900 + tags[0])) vf_fail("sequencer_node accepted a second message with tag %d", tags[0]); pump(); } }
      g.wait_for_all(); if (extra == 2) { if (sn.try_put(900)) vf_fail("sequencer_node accepted tag 0 after it had emitted tag 0"); g.wait_for_all(); } }
    vtbb::finish();
    if ((int)got.size() != k) vf_fail("sequencer_node forwarded %zu items for tags 0..%d (arrival %s)", got.size(), k - 1, S(tags).c_str());
    for (int i = 0; i < k; i++) { if (got[i] % 100 != i) vf_fail("sequencer_node forwarded tag %d at position %d (arrival %s)", got[i] % 100, i, S(tags).c_str()); if (got[i] / 100 == 9) vf_fail("sequencer_node forwarded the duplicate message with tag %d", i); }
    vf_outcome("seqr k=%d rej=%d extra=%d arrival=%s got=%s", k, rej, extra, S(tags).c_str(), S(got).c_str());
}
// ================================================================ join
struct Tup { int a, b; };
template <class J, class Put0, class Put1> static void run_join(J& j, graph& g, int k0, int k1, long order, int rej, std::vector<Tup>& out, Put0 put0, Put1 put1, std::vector<int>& acc0, std::vector<int>& acc1, const std::vector<int>& v0, const std::vector<int>& v1) {
    int live = 0; auto body = [&](const std::tuple<int, int>& t) { if (live) vf_fail("serial successor of the join_node runs twice at once"); live++; out.push_back({std::get<0>(t), std::get<1>(t)}); pump(); live--; return continue_msg(); };
    function_node<std::tuple<int, int>, continue_msg> Fq(g, serial, body); function_node<std::tuple<int, int>, continue_msg, rejecting> Fr(g, serial, body); if (rej) make_edge(j, Fr); else make_edge(j, Fq);
    int i0 = 0, i1 = 0; while (i0 < k0 || i1 < k1) { bool take0 = i1 >= k1 || (i0 < k0 && !(order & 1)); order >>= 1; if (take0) { if (put0(v0[i0])) acc0.push_back(v0[i0]); i0++; } else { if (put1(v1[i1])) acc1.push_back(v1[i1]); i1++; } pump(); }
    g.wait_for_all();
}
static void s_join(long c) { int pol = (int)(c % 3); c /= 3; int k0 = 1 + (int)(c % 3); c /= 3; int k1 = 1 + (int)(c % 3); c /= 3; int rej = (int)(c % 2); c /= 2; int keyset = (int)(c % 3); c /= 3; long order = c % 64;
    vtbb::init(2); std::vector<Tup> out; std::vector<int> acc0, acc1, v0, v1; static const int KEYS[3][2][3] = {{{1, 2, 3}, {3, 2, 1}}, {{1, 1, 2}, {1, 2, 1}}, {{1, 2, 1}, {2, 2, 1}}};
    for (int i = 0; i < k0; i++) v0.push_back(pol == 1 ? KEYS[keyset][0][i] * 10 + 1000 * (i + 1) : 10 + i); for (int i = 0; i < k1; i++) v1.push_back(pol == 1 ? KEYS[keyset][1][i] * 10 + 5 + 1000 * (i + 1) : 20 + i);
    if (pol != 1 && keyset) { vf_outcome("skip"); return; }
    { graph g;
      if (pol == 0) { join_node<std::tuple<int, int>, queueing> j(g); run_join(j, g, k0, k1, order, rej, out, [&](int v) { return input_port<0>(j).try_put(v); }, [&](int v) { return input_port<1>(j).try_put(v); }, acc0, acc1, v0, v1);
          if (acc0.size() != (size_t)k0 || acc1.size() != (size_t)k1) vf_fail("a queueing join port rejected a message");
          size_t n = std::min(k0, k1); if (out.size() != n) vf_fail("queueing join_node: %zu tuples from %d and %d messages", out.size(), k0, k1); for (size_t i = 0; i < n; i++) if (out[i].a != v0[i] || out[i].b != v1[i]) vf_fail("queueing join_node: tuple %zu is (%d,%d), expected the %zu-th message of every port (%d,%d)", i, out[i].a, out[i].b, i, v0[i], v1[i]); }
      else if (pol == 1) { using J = join_node<std::tuple<int, int>, key_matching<int>>; J j(g, [](const int& v) { return (v / 10) % 10; }, [](const int& v) { return (v / 10) % 10; });
          run_join(j, g, k0, k1, order, rej, out, [&](int v) { return input_port<0>(j).try_put(v); }, [&](int v) { return input_port<1>(j).try_put(v); }, acc0, acc1, v0, v1);
          std::multiset<int> u0, u1; for (auto& t : out) { if ((t.a / 10) % 10 != (t.b / 10) % 10) vf_fail("key_matching join_node: tuple (%d,%d) mixes keys %d and %d", t.a, t.b, (t.a / 10) % 10, (t.b / 10) % 10); u0.insert(t.a); u1.insert(t.b); }
          for (int x : u0) { if (u0.count(x) > 1) vf_fail("key_matching join_node used message %d twice", x); if (std::find(acc0.begin(), acc0.end(), x) == acc0.end()) vf_fail("key_matching join_node emitted message %d which port 0 never accepted", x); }
          for (int x : u1) { if (u1.count(x) > 1) vf_fail("key_matching join_node used message %d twice", x); if (std::find(acc1.begin(), acc1.end(), x) == acc1.end()) vf_fail("key_matching join_node emitted message %d which port 1 never accepted", x); }
          for (int key = 1; key <= 3; key++) { int n0 = 0, n1 = 0, nt = 0; for (int x : acc0) n0 += (x / 10) % 10 == key; for (int x : acc1) n1 += (x / 10) % 10 == key; for (auto& t : out) nt += (t.a / 10) % 10 == key; if (nt != std::min(n0, n1)) vf_fail("key_matching join_node: key %d was accepted %d and %d times on the two ports but %d tuples were emitted", key, n0, n1, nt); } }
      else { queue_node<int> q0(g), q1(g); join_node<std::tuple<int, int>, reserving> j(g); make_edge(q0, input_port<0>(j)); make_edge(q1, input_port<1>(j));
          run_join(j, g, k0, k1, order, rej, out, [&](int v) { return q0.try_put(v); }, [&](int v) { return q1.try_put(v); }, acc0, acc1, v0, v1);
          size_t n = std::min(k0, k1); if (out.size() != n) vf_fail("reserving join_node: %zu tuples from %d and %d queued messages", out.size(), k0, k1); for (size_t i = 0; i < n; i++) if (out[i].a != v0[i] || out[i].b != v1[i]) vf_fail("reserving join_node: tuple %zu is (%d,%d), expected (%d,%d)", i, out[i].a, out[i].b, v0[i], v1[i]);
          std::vector<int> r0, r1; int v; while (q0.try_get(v)) r0.push_back(v); while (q1.try_get(v)) r1.push_back(v);
          if (r0.size() != k0 - n || r1.size() != k1 - n) vf_fail("reserving join_node: %zu and %zu messages remain in the queues, expected %zu and %zu (consumed without a complete tuple, or reservation not released)", r0.size(), r1.size(), k0 - n, k1 - n);
          for (size_t i = 0; i < r0.size(); i++) if (r0[i] != v0[n + i]) vf_fail("queue 0 holds %d after the join", r0[i]); for (size_t i = 0; i < r1.size(); i++) if (r1[i] != v1[n + i]) vf_fail("queue 1 holds %d after the join", r1[i]); } }
    vtbb::finish(); std::string o; for (auto& t : out) o += "(" + std::to_string(t.a) + "," + std::to_string(t.b) + ")"; vf_outcome("join pol=%d k=%d,%d rej=%d keys=%d order=%ld acc=%zu,%zu out=%s", pol, k0, k1, rej, keyset, order, acc0.size(), acc1.size(), o.c_str());
}
// ================================================================ limiter with a test receiver
struct TestRecv : receiver<int> { graph& g; std::vector<int> got; int outstanding = 0, maxout = 0, threshold; bool accept_all = false; int rejected = 0;
    TestRecv(graph& gr, int t) : g(gr), threshold(t) {}
    graph_task* try_put_task(const int& v) override { if (!accept_all && vf_choose(2)) { rejected++; return nullptr; }
        if (std::find(got.begin(), got.end(), v) != got.end()) vf_fail("limiter_node forwarded message %d twice", v);
        got.push_back(v); if (++outstanding > threshold) vf_fail("limiter_node(threshold %d) forwarded message %d while %d forwarded messages are not yet decremented", threshold, v, outstanding - 1); if (outstanding > maxout) maxout = outstanding; return SUCCESSFULLY_ENQUEUED; }   // no interleave point here: the sender holds its successor-cache lock during this call (threads are covered by the real-runtime legs)
    graph& graph_reference() const override { return g; } };
static void s_limiter(long c) { int t = 1 + (int)(c % 2); c /= 2; int n = 3 + (int)(c % 3); c /= 3; long prog = c;   // prog digit i (base 3): 0 put into the queue, 1 direct try_put to the limiter, 2 decrement
    vtbb::init(2); int puts = 0, rejected_puts = 0; std::vector<int> queued, direct_ok, direct_rej; std::string trace;
    { graph g; queue_node<int> Q(g); limiter_node<int> L(g, (size_t)t); TestRecv R(g, t); make_edge(Q, L); make_edge(L, R);
      for (int i = 0; i < n; i++) { int op = (int)(prog % 3); prog /= 3; trace += "QLD"[op];
          if (op == 2) { if (R.outstanding > 0) R.outstanding--; L.decrementer().try_put(continue_msg()); }
          else if (op == 0) { int v = ++puts; if (!Q.try_put(v)) vf_fail("queue_node rejected %d", v); queued.push_back(v); }
          else { int v = ++puts; if (L.try_put(v)) direct_ok.push_back(v); else { rejected_puts++; direct_rej.push_back(v); } }
          pump(); }
      g.wait_for_all();
      for (int v : direct_ok) if (std::find(R.got.begin(), R.got.end(), v) == R.got.end()) vf_fail("limiter_node accepted message %d from try_put but never forwarded it [%s]", v, trace.c_str());
      for (int v : direct_rej) if (std::find(R.got.begin(), R.got.end(), v) != R.got.end()) vf_fail("limiter_node forwarded message %d although try_put reported it rejected [%s]", v, trace.c_str());
      // buffered predecessor: nothing may be lost; once the receiver accepts and decrements arrive, every queued message must come through
      R.accept_all = true; size_t want = queued.size() + direct_ok.size();
      for (size_t round = 0; round < want + t + 2; round++) { g.wait_for_all(); if (R.got.size() == want || R.outstanding == 0) break; R.outstanding--; L.decrementer().try_put(continue_msg()); }
      g.wait_for_all();
      std::vector<int> a = queued, b; a.insert(a.end(), direct_ok.begin(), direct_ok.end()); b = R.got; std::sort(a.begin(), a.end()); std::sort(b.begin(), b.end());
      if (a != b) vf_fail("limiter_node: %zu messages were accepted or queued but %zu came through after the receiver accepted everything and all forwarded messages were decremented [%s]", a.size(), b.size(), trace.c_str());
      int last = -1; for (int v : R.got) if (std::find(queued.begin(), queued.end(), v) != queued.end()) { if (v < last) vf_fail("limiter_node forwarded queued messages out of order: %d after %d", v, last); last = v; }
      vf_outcome("limiter t=%d %s fwd=%zu rejected_puts=%d recv_rejects=%d maxout=%d", t, trace.c_str(), R.got.size(), rejected_puts, R.rejected, R.maxout); }
    vtbb::finish();
}
// ================================================================ limiter with an integral decrementer; decrements may arrive while a put is in flight
// limiter_node<int,int>: the decrement value d is an integer.  A decrement can arrive while a put attempt is still inside the successor
// (the limiter counts it as an active try, not yet as forwarded): here the receiver itself sends it from inside its k-th accepted
// try_put_task (the limiter holds no lock of its own during that call).  Every decrement sent is at most the number of messages the
// receiver has accepted and that are not yet decremented, so "un-decremented forwarded messages" is unambiguous: accepted - decremented.
struct TestRecvI : receiver<int> { graph& g; limiter_node<int, int>* lim = nullptr; std::vector<int> got; int outstanding = 0, threshold; bool accept_all = false; int rejected = 0, accepts = 0, inside_at, inside_d;
    TestRecvI(graph& gr, int t, int k, int d) : g(gr), threshold(t), inside_at(k), inside_d(d) {}
    graph_task* try_put_task(const int& v) override { if (!accept_all && vf_choose(2)) { rejected++; return nullptr; }
        if (std::find(got.begin(), got.end(), v) != got.end()) vf_fail("limiter_node forwarded message %d twice", v);
        got.push_back(v); if (++outstanding > threshold) vf_fail("limiter_node<int,int>(threshold %d) forwarded message %d while %d forwarded messages are not yet decremented", threshold, v, outstanding - 1);
        if (++accepts == inside_at && inside_d <= outstanding) { outstanding -= inside_d; lim->decrementer().try_put(inside_d); }
        return SUCCESSFULLY_ENQUEUED; }
    graph& graph_reference() const override { return g; } };
static void s_limiter_int(long c) { int t = 2 + (int)(c % 2); c /= 2; int k = (int)(c % 4); c /= 4; int dd = 1 + (int)(c % 2); c /= 2; int n = 3 + (int)(c % 3); c /= 3; long prog = c;   // digit (base 4): 0 queued put, 1 direct put, 2 decrement 1, 3 decrement 2
    vtbb::init(2); int puts = 0; std::vector<int> queued, direct_ok, direct_rej; std::string trace;
    { graph g; queue_node<int> Q(g); limiter_node<int, int> L(g, (size_t)t); TestRecvI R(g, t, k, dd); R.lim = &L; make_edge(Q, L); make_edge(L, R);
      for (int i = 0; i < n; i++) { int op = (int)(prog % 4); prog /= 4;
          // a decrement sent from inside the successor must not find a queued item to forward: the forward would re-enter the limiter's
          // successor cache, whose lock the outer try_put still holds (a documented limitation of re-entrant lightweight cycles, not a
          // property of the limiter) - with an inside decrement all puts are direct puts
          if (k > 0 && op == 0) op = 1;
          trace += "QL12"[op];
          if (op >= 2) { int d = op - 1; if (d <= R.outstanding) { R.outstanding -= d; L.decrementer().try_put(d); } else trace += '-'; }
          else if (op == 0) { int v = ++puts; if (!Q.try_put(v)) vf_fail("queue_node rejected %d", v); queued.push_back(v); }
          else { int v = ++puts; if (L.try_put(v)) direct_ok.push_back(v); else direct_rej.push_back(v); }
          pump(); }
      g.wait_for_all();
      for (int v : direct_ok) if (std::find(R.got.begin(), R.got.end(), v) == R.got.end()) vf_fail("limiter_node<int,int> accepted message %d from try_put but never forwarded it [%s k=%d d=%d]", v, trace.c_str(), k, dd);
      for (int v : direct_rej) if (std::find(R.got.begin(), R.got.end(), v) != R.got.end()) vf_fail("limiter_node<int,int> forwarded message %d although try_put reported it rejected [%s]", v, trace.c_str());
      R.accept_all = true; size_t want = queued.size() + direct_ok.size();
      for (size_t round = 0; round < want + t + 2; round++) { g.wait_for_all(); if (R.got.size() == want || R.outstanding == 0) break; R.outstanding--; L.decrementer().try_put(1); }
      g.wait_for_all();
      std::vector<int> a = queued, b; a.insert(a.end(), direct_ok.begin(), direct_ok.end()); b = R.got; std::sort(a.begin(), a.end()); std::sort(b.begin(), b.end());
      if (a != b) vf_fail("limiter_node<int,int>: %zu messages were accepted or queued but %zu came through after the receiver accepted everything and all forwarded messages were decremented [%s k=%d d=%d]", a.size(), b.size(), trace.c_str(), k, dd);
      vf_outcome("limiter-int t=%d k=%d d=%d %s fwd=%zu recv_rejects=%d", t, k, dd, trace.c_str(), R.got.size(), R.rejected); }
    vtbb::finish();
}
// ================================================================ overwrite_node / write_once_node
static void s_ow(long c) { int once = (int)(c % 2); c /= 2; int via = (int)(c % 2); c /= 2; int n = 5; int ops[5]; for (int i = 0; i < n; i++) { ops[i] = (int)(c % 4); c /= 4; }   // 0 put next value, 1 add a successor, 2 try_get, 3 clear;  via=1: the puts arrive through a broadcast_node in front (an edge that a refused message must not destroy)
    vtbb::init(2); std::string trace; int nsucc = 0; for (int i = 0; i < n; i++) nsucc += ops[i] == 1; if (nsucc > 2) { vf_outcome("skip"); return; }
    { graph g; overwrite_node<int> ow(g); write_once_node<int> wo(g); broadcast_node<int> front(g); if (via) { if (once) make_edge(front, wo); else make_edge(front, ow); } std::vector<int> got[2]; int added = 0, nput = 0; bool has = false; int cur = 0; std::vector<std::vector<int>> expect(2);
      function_node<int, continue_msg> S0(g, unlimited, [&](int v) { got[0].push_back(v); pump(); return continue_msg(); }); function_node<int, continue_msg> S1(g, serial, [&](int v) { got[1].push_back(v); pump(); return continue_msg(); });
      for (int i = 0; i < n; i++) { trace += "PSGC"[ops[i]];
          if (ops[i] == 3) { if (once) wo.clear(); else ow.clear(); has = false; }
          else if (ops[i] == 0 && via) { int v = 10 + (++nput); front.try_put(v); g.wait_for_all(); bool should = !once || !has; if (should) { has = true; cur = v; for (int s2 = 0; s2 < added; s2++) expect[s2].push_back(v); } }
          else if (ops[i] == 0) { int v = 10 + (++nput); bool ok = once ? wo.try_put(v) : ow.try_put(v); bool should = !once || !has; if (ok != should) vf_fail("%s try_put(%d) returned %d [%s]", once ? "write_once_node" : "overwrite_node", v, ok, trace.c_str()); if (should) { has = true; cur = v; for (int s = 0; s < added; s++) expect[s].push_back(v); } }
          else if (ops[i] == 1) { if (added == 0) { if (once) make_edge(wo, S0); else make_edge(ow, S0); } else { if (once) make_edge(wo, S1); else make_edge(ow, S1); } if (has) expect[added].push_back(cur); added++; }
          else { int v = -1; bool ok = once ? wo.try_get(v) : ow.try_get(v); if (ok != has || (ok && v != cur)) vf_fail("%s try_get returned %d/%d, expected %d/%d [%s]", once ? "write_once_node" : "overwrite_node", ok, v, has, cur, trace.c_str()); }
          pump(); }
      g.wait_for_all();
      for (int s = 0; s < 2; s++) { std::vector<int> a = got[s], b = expect[s]; std::sort(a.begin(), a.end()); std::sort(b.begin(), b.end()); if (a != b) vf_fail("%s: successor %d received %s but should have received %s [%s]", once ? "write_once_node" : "overwrite_node", s, S(got[s]).c_str(), S(expect[s]).c_str(), trace.c_str()); }
      vf_outcome("ow once=%d %s s0=%s s1=%s", once, trace.c_str(), S(got[0]).c_str(), S(got[1]).c_str()); }
    vtbb::finish();
}
// ================================================================ split / indexer / broadcast routing
static void s_route(long c) { int kind = (int)(c % 3); c /= 3; int k = 1 + (int)(c % 3); c /= 3; int P = 2 + (int)(c % 2);
    vtbb::init(P); std::vector<int> g0, g1; std::vector<std::pair<int, int>> tagged;
    { graph g; function_node<int, continue_msg> S0(g, serial, [&](int v) { g0.push_back(v); pump(); return continue_msg(); }); function_node<int, continue_msg> S1(g, unlimited, [&](int v) { g1.push_back(v); pump(); return continue_msg(); });
      if (kind == 0) { split_node<std::tuple<int, int>> sp(g); make_edge(output_port<0>(sp), S0); make_edge(output_port<1>(sp), S1); for (int i = 1; i <= k; i++) { if (!sp.try_put(std::make_tuple(i, 100 + i))) vf_fail("split_node rejected"); pump(); } g.wait_for_all();
          std::sort(g0.begin(), g0.end()); std::sort(g1.begin(), g1.end()); for (int i = 1; i <= k; i++) if ((int)g0.size() != k || (int)g1.size() != k || g0[i - 1] != i || g1[i - 1] != 100 + i) vf_fail("split_node: port 0 received %s, port 1 received %s", S(g0).c_str(), S(g1).c_str()); }
      else if (kind == 1) { using IN = indexer_node<int, int>; IN ix(g); function_node<IN::output_type, continue_msg> T(g, serial, [&](const IN::output_type& m) { tagged.push_back({(int)m.tag(), cast_to<int>(m)}); pump(); return continue_msg(); }); make_edge(ix, T);
          for (int i = 1; i <= k; i++) { input_port<0>(ix).try_put(i); pump(); input_port<1>(ix).try_put(100 + i); pump(); } g.wait_for_all();
          if ((int)tagged.size() != 2 * k) vf_fail("indexer_node: %zu of %d messages arrived", tagged.size(), 2 * k); std::set<std::pair<int, int>> seen; for (auto& t : tagged) { if ((t.second > 100) != (t.first == 1)) vf_fail("indexer_node: value %d arrived with tag %d", t.second, t.first); if (!seen.insert(t).second) vf_fail("indexer_node duplicated a message"); } }
      else { broadcast_node<int> b(g); make_edge(b, S0); make_edge(b, S1); for (int i = 1; i <= k; i++) { if (!b.try_put(i)) vf_fail("broadcast_node rejected"); pump(); } g.wait_for_all(); std::sort(g1.begin(), g1.end()); for (int i = 1; i <= k; i++) if ((int)g0.size() != k || (int)g1.size() != k || g0[i - 1] != i || g1[i - 1] != i) vf_fail("broadcast_node: successors received %s and %s", S(g0).c_str(), S(g1).c_str()); } }
    vtbb::finish(); vf_outcome("route kind=%d k=%d P=%d", kind, k, P);
}

// broadcast_node with three successors that accept or reject in every pattern: 0 queue_node (accepts everything), 1 / 2 limiter_node(1 / 2) -> queue
// (rejects once its threshold is reached and turns its edge round), 3 rejecting serial function_node (rejects while it is busy).  Every accepting
// successor receives every message exactly once and in order whatever the others do; a limiter passes exactly its first messages.
static void s_bcast(long c) { int kd[3]; for (int i = 0; i < 3; i++) { kd[i] = (int)(c % 4); c /= 4; } int P = 2 + (int)(c % 2); const int k = 4;
    vtbb::init(P); std::vector<int> got[3];
    { graph g; broadcast_node<int> b(g); std::vector<std::unique_ptr<queue_node<int>>> qs; std::vector<std::unique_ptr<limiter_node<int>>> ls; std::vector<std::unique_ptr<function_node<int, continue_msg, rejecting>>> fs;
      for (int i = 0; i < 3; i++) {
          if (kd[i] == 0) { qs.emplace_back(new queue_node<int>(g)); make_edge(b, *qs.back()); }
          else if (kd[i] <= 2) { ls.emplace_back(new limiter_node<int>(g, (size_t)kd[i])); qs.emplace_back(new queue_node<int>(g)); make_edge(b, *ls.back()); make_edge(*ls.back(), *qs.back()); }
          else { std::vector<int>* gv = &got[i]; fs.emplace_back(new function_node<int, continue_msg, rejecting>(g, serial, [gv](int v) { gv->push_back(v); pump(); return continue_msg(); })); make_edge(b, *fs.back()); } }
      for (int m = 1; m <= k; m++) { if (!b.try_put(m)) vf_fail("broadcast_node rejected a message"); pump(); }
      g.wait_for_all();
      size_t qi = 0; for (int i = 0; i < 3; i++) { if (kd[i] == 3) continue; int v; while (qs[qi]->try_get(v)) got[i].push_back(v); qi++; } }
    for (int i = 0; i < 3; i++) { std::string what = "successor " + std::to_string(i) + " of the broadcast_node (successor kinds " + std::to_string(kd[0]) + std::to_string(kd[1]) + std::to_string(kd[2]) + ": 0 queue, 1/2 limiter(1/2), 3 rejecting serial function_node)";
        if (kd[i] == 0) { if ((int)got[i].size() != k) vf_fail("%s accepts everything but received %s", what.c_str(), S(got[i]).c_str()); for (int m = 1; m <= k; m++) if (got[i][m - 1] != m) vf_fail("%s received %s", what.c_str(), S(got[i]).c_str()); }
        else if (kd[i] <= 2) { if ((int)got[i].size() != kd[i]) vf_fail("%s passed %s", what.c_str(), S(got[i]).c_str()); for (int m = 1; m <= kd[i]; m++) if (got[i][m - 1] != m) vf_fail("%s passed %s", what.c_str(), S(got[i]).c_str()); }
        else { if (got[i].empty() || got[i][0] != 1) vf_fail("%s was idle but did not get message 1: %s", what.c_str(), S(got[i]).c_str()); for (size_t j = 1; j < got[i].size(); j++) if (got[i][j] <= got[i][j - 1]) vf_fail("%s received %s", what.c_str(), S(got[i]).c_str()); } }
    vtbb::finish(); vf_outcome("bcast %d%d%d P=%d %s|%s|%s", kd[0], kd[1], kd[2], P, S(got[0]).c_str(), S(got[1]).c_str(), S(got[2]).c_str());
}

// sequencer_node whose buffer has to grow by more than one doubling: H items have already gone through in order, b items wait behind a
// missing head, then an item arrives d positions ahead; afterwards the gaps are filled in a scattered order.  The successor must receive
// exactly 0,1,2,... and every put of a fresh sequence number is accepted.
static void s_seqfar(long c) { static const int HS[] = {0, 4, 8, 12}, DS[] = {5, 9, 17, 33, 70}; int H = HS[c % 4]; c /= 4; int b = 1 + (int)(c % 3); c /= 3; int d = DS[c % 5]; c /= 5; int order = (int)(c % 2);
    vtbb::init(2); std::vector<int> got;
    { graph g; sequencer_node<int> sq(g, [](const int& v) -> size_t { return (size_t)v; }); function_node<int, continue_msg> R(g, serial, [&](int v) { got.push_back(v); return continue_msg(); }); make_edge(sq, R);
      auto put = [&](int v) { if (!sq.try_put(v)) vf_fail("sequencer_node refused the fresh sequence number %d (H=%d b=%d d=%d)", v, H, b, d); pump(); };
      for (int i = 0; i < H; i++) put(i);                       // in order
      g.wait_for_all(); if ((int)got.size() != H) vf_fail("sequencer_node: %zu of the first %d in-order items came through", got.size(), H);   // really forwarded: head and tail of the ring have advanced
      for (int i = 1; i <= b; i++) put(H + i);                  // wait behind the missing head H
      int far = H + b + d; put(far);                            // far ahead: the buffer grows by several doublings with items in it
      std::vector<int> rest; for (int i = H; i <= far; i++) if (!(i > H && i <= H + b) && i != far) rest.push_back(i);
      if (order) std::reverse(rest.begin(), rest.end()); else { std::vector<int> ev, od; for (size_t i = 0; i < rest.size(); i++) (i % 2 ? od : ev).push_back(rest[i]); rest = od; rest.insert(rest.end(), ev.begin(), ev.end()); }
      for (int v : rest) put(v);
      g.wait_for_all();
      if ((int)got.size() != far + 1) vf_fail("sequencer_node: the successor received %zu items, expected %d (H=%d b=%d d=%d): %s", got.size(), far + 1, H, b, d, S(got).c_str());
      for (int i = 0; i <= far; i++) if (got[i] != i) vf_fail("sequencer_node: position %d holds %d (H=%d b=%d d=%d)", i, got[i], H, b, d); }
    vtbb::finish(); vf_outcome("seqfar H=%d b=%d d=%d order=%d", H, b, d, order);
}

struct Block { const char* name; long count; void (*fn)(long); };
static std::vector<Block> blocks; static const char* only = nullptr; static const char* skip = nullptr;
static void scenario(long c) { for (auto& b : blocks) { if (c < b.count) { b.fn(c); return; } c -= b.count; } }
int main(int argc, char** argv) {
    for (int i = 1; i + 1 < argc; i++) if (!strcmp(argv[i], "-p")) { if (!strncmp(argv[i + 1], "only=", 5)) only = argv[i + 1] + 5; if (!strncmp(argv[i + 1], "skip=", 5)) skip = argv[i + 1] + 5; if (!strncmp(argv[i + 1], "depth=", 6)) DEPTH = atoi(argv[i + 1] + 6); if (!strncmp(argv[i + 1], "prefills=", 9)) { PREFILLS.clear(); for (const char* q = argv[i + 1] + 9; *q;) { PREFILLS.push_back((int)strtol(q, (char**)&q, 10)); if (*q == '.') q++; } } }
    Block all[] = {{"seq", 4 * (long)PREFILLS.size() * seq_count(DEPTH), s_seq}, {"seqr", 3 * 2 * 3 * 24, s_seqr}, {"join", 3 * 3 * 3 * 2 * 3 * 64, s_join}, {"limiter", 2 * 3 * 243, s_limiter}, {"limiterint", 2 * 4 * 2 * 3 * 1024, s_limiter_int}, {"ow", 2 * 2 * 1024, s_ow}, {"route", 3 * 3 * 2, s_route}, {"bcast", 64 * 2, s_bcast}, {"seqfar", 4 * 3 * 5 * 2, s_seqfar}};
    auto listed = [](const char* list, const char* name) { std::string l = std::string(",") + list + ",", n = std::string(",") + name + ","; return l.find(n) != std::string::npos; };   // -p skip=a,b
    for (auto& b : all) if ((!only || !strcmp(only, b.name)) && (!skip || !listed(skip, b.name))) blocks.push_back(b);
    long n = 0; for (auto& b : blocks) n += b.count; return vf_main_cases(argc, argv, n, scenario);
}
