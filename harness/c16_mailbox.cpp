// VF-BUILD: tbb whitebox
// C16 (isolation, mailbox side) - every sequence of up to 4 proxies with isolation tags 0 (none) / 1 / 2 pushed into one real mail_outbox,
// followed by every sequence of up to 4 pops with the taker's isolation 0 / 1 / 2 (pushes and pops also interleaved: a second batch of
// pushes after the first pop).  A taker inside an isolation scope gets the OLDEST proxy carrying its own tag or nothing; a taker outside
// any scope gets the oldest proxy; no proxy is handed out twice or lost.  Single thread, real list code (mail_outbox::push / internal_pop).
#include "governor.h"
#include "arena.h"
#include "mailbox.h"
#include "vfh.h"
#include <deque>
using namespace tbb::detail;
struct P { alignas(r1::task_proxy) unsigned char raw[sizeof(r1::task_proxy)]; };
static void scenario(long c) {
    int np1 = (int)(c % 4); c /= 4; int np2 = (int)(c % 2); c /= 2; int npop = 1 + (int)(c % 4); c /= 4; long pushcode = c % 243; c /= 243; long popcode = c;
    static P store[8]; r1::mail_outbox* box = (r1::mail_outbox*)r1::cache_aligned_allocate(sizeof(r1::mail_outbox)); memset((void*)box, 0, sizeof(r1::mail_outbox)); /* construct() expects zeroed memory */ box->construct(); r1::mail_inbox in; in.attach(*box);
    std::deque<std::pair<int, int>> model;   // (id, tag) in mailing order
    int next = 0; std::string tr;
    auto push = [&](int tag) { r1::task_proxy* p = new (store[next].raw) r1::task_proxy(); r1::task_accessor::isolation(*p) = (r1::isolation_type)tag; p->next_in_mailbox.store(nullptr, std::memory_order_relaxed); box->push(p); model.push_back({next, tag}); tr += "p" + std::to_string(tag); next++; };
    auto pop = [&](int iso) { r1::task_proxy* p = in.pop((r1::isolation_type)iso); tr += "g" + std::to_string(iso);
        auto it = model.begin(); if (iso) while (it != model.end() && it->second != iso) ++it;
        if (it == model.end()) { if (p) vf_fail("a taker with isolation %d got a proxy although the mailbox holds none it may take [%s] (the proxy carries tag %d)", iso, tr.c_str(), (int)r1::task_accessor::isolation(*p)); return; }
        if (!p) vf_fail("a taker with isolation %d got nothing although the mailbox holds a proxy with that tag [%s]", iso, tr.c_str());
        int id = (int)((P*)p - store); if (iso && (int)r1::task_accessor::isolation(*p) != iso) vf_fail("a taker inside isolation scope %d was handed a mailed proxy with isolation tag %d [%s]", iso, (int)r1::task_accessor::isolation(*p), tr.c_str());
        if (id != it->first) vf_fail("the mailbox handed out proxy %d, the oldest one the taker may take is %d [%s]", id, it->first, tr.c_str()); model.erase(it); };
    for (int i = 0; i < np1; i++) { push((int)(pushcode % 3)); pushcode /= 3; }
    for (int i = 0; i < npop; i++) { pop((int)(popcode % 3)); popcode /= 3; if (i == 0) for (int j = 0; j < np2; j++) { push((int)(pushcode % 3)); pushcode /= 3; } }
    while (!model.empty()) pop(0);   // drain: everything that is left comes out, in order
    if (in.pop(r1::no_isolation)) vf_fail("the drained mailbox still hands out a proxy [%s]", tr.c_str());
    in.detach(); r1::cache_aligned_deallocate(box);
    vf_outcome("%s", tr.c_str());
}
int main(int argc, char** argv) { return vf_main_cases(argc, argv, 4L * 2 * 4 * 243 * 81, scenario); }
