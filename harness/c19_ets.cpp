// VF-BUILD: tbb
// C19 (thread-specific storage) - enumerable_thread_specific / combinable: one element per thread, one initialiser call
// each, stable addresses, combine/iteration visit each element once, while the internal table grows.
// -p pre=K (K threads register before the window)  -p n=N (N threads call local() for the first time inside the window)
// -p kind=ets|ets_key|comb|ets_park (-p park=N: the first N table-array allocations wait for each other inside the allocator)
#include <oneapi/tbb/enumerable_thread_specific.h>
#include <oneapi/tbb/combinable.h>
#include "vfh.h"
#include <set>
using namespace vfh;
static int inits = 0;
// Allocator whose table-array allocations (uintptr_t) can park the calling thread: allocate() sits between "the root was read" and
// "the new array is published", so with -p park=N the window opens in the state where N threads are all inside that gap.
static int park_want = 0, park_have = 0, park_open = 0;
template <class U> struct ParkAlloc { using value_type = U; ParkAlloc() = default; template <class V> ParkAlloc(const ParkAlloc<V>&) {}
    U* allocate(std::size_t n) { if (std::is_same<U, std::uintptr_t>::value && park_want && !park_open) { ++park_have; while (!park_open) vf_block_on(&park_open); }
        return static_cast<U*>(tbb::detail::r1::cache_aligned_allocate(n * sizeof(U))); }
    void deallocate(U* p, std::size_t) { tbb::detail::r1::cache_aligned_deallocate(p); }
    template <class V> bool operator==(const ParkAlloc<V>&) const { return true; } template <class V> bool operator!=(const ParkAlloc<V>&) const { return false; } };
struct Cell { int tag; int pad[3]; };
template <class E> static void run_ets() {
    int pre = (int)vf_param_int("pre", 0), n = (int)vf_param_int("n", 3); park_want = 0;
    // -p moved=1|2 : the pre registered threads used ANOTHER container, which is then moved (1 move construction, 2 move assignment) into
    // the container the window works on: the element count and the thread table must arrive together, or later first accesses miss growth
    int moved = (int)vf_param_int("moved", 0);
    E first([] { ++inits; return Cell{0, {0, 0, 0}}; });
    std::vector<Cell*> addr(pre + n, nullptr), addr2(pre + n, nullptr); std::vector<int> exists(pre + n, -1);
    static int never; int parked = 0;
    for (int i = 0; i < pre; i++) spawn([&, i] { Cell& c = first.local(); c.tag = 100 + i; addr[i] = addr2[i] = &c; exists[i] = 1; parked++; vf_block_on(&never); });   // registered threads stay alive, outside the window
    while (parked < pre) vf_yield();
    E second = moved == 1 ? E(std::move(first)) : E([] { ++inits; return Cell{0, {0, 0, 0}}; }); if (moved == 2) second = std::move(first);
    E& ets = moved ? second : first;
    park_want = (int)vf_param_int("park", 0); park_have = 0; park_open = 0; vf_liveness(1);
    auto ids = gated(n, nullptr,
                     [&](int j) { int i = pre + j; bool ex = true; Cell& c = ets.local(ex); exists[i] = ex; if (i >= pre) { if (c.tag != 0) vf_fail("thread %d got an element that already carries tag %d", i, c.tag); c.tag = 100 + i; addr[i] = &c; }
                                  Cell& d = ets.local(); addr2[i] = &d; if (d.tag != 100 + i) vf_fail("thread %d's second local() returned another element (tag %d)", i, d.tag); });
    if (park_want) { vf_gate_open(); while (park_have < park_want) vf_yield();   // set-up outside the window: the first park_want threads are inside the allocator, between reading the root and publishing their array
        vf_window(1); park_open = 1; vf_wake(&park_open); join_all(ids); vf_window(0); }
    else open_window_and_join(ids);
    for (int i = 0; i < pre + n; i++) { if (addr[i] != addr2[i]) vf_fail("element of thread %d changed address", i); if (exists[i] != (i < pre)) vf_fail("local(exists) reported %d for thread %d", exists[i], i);
        for (int j = 0; j < i; j++) if (addr[i] == addr[j]) vf_fail("threads %d and %d share one element", i, j); }
    if (inits != pre + n) vf_fail("%d initialiser calls for %d threads", inits, pre + n);
    std::multiset<int> tags; for (auto it = ets.begin(); it != ets.end(); ++it) tags.insert(it->tag);
    if ((int)ets.size() != pre + n || (int)tags.size() != pre + n) vf_fail("size() %zu / iteration %zu elements for %d threads", ets.size(), tags.size(), pre + n);
    for (int i = 0; i < pre + n; i++) if (tags.count(100 + i) != 1) vf_fail("iteration visits the element of thread %d %zu times", i, tags.count(100 + i));
    // backward traversal with a dereference before every decrement, const and non-const iterators, and iterator arithmetic: each element once
    { std::multiset<int> back; auto it = ets.end(); int steps = 0; while (it != ets.begin()) { if (steps) (void)it->tag; --it; back.insert(it->tag); if (++steps > pre + n + 1) vf_fail("backward iteration does not terminate"); } if (back != tags) vf_fail("backward iteration (dereference, decrement, dereference) visited %zu elements, %zu distinct - forward iteration visited %zu", back.size(), std::set<int>(back.begin(), back.end()).size(), tags.size());
      const E& ce = ets; std::multiset<int> cback; auto cit = ce.end(); while (cit != ce.begin()) { auto prev = cit; --prev; (void)prev->tag; cit--; cback.insert((*cit).tag); } if (cback != tags) vf_fail("backward const iteration visited other elements than forward iteration");
      std::multiset<int> idx; for (size_t i = 0; i < ets.size(); i++) { auto j = ets.begin(); (void)(*j).tag; j += (std::ptrdiff_t)i; idx.insert(j->tag); auto k2 = ets.end() - (std::ptrdiff_t)(ets.size() - i); if (k2->tag != j->tag) vf_fail("iterator arithmetic: begin()+%zu and end()-%zu differ", i, ets.size() - i); } if (idx != tags) vf_fail("indexed iteration visited other elements than forward iteration"); }
    int sum = 0, cnt = 0; ets.combine_each([&](const Cell& c) { sum += c.tag; cnt++; }); if (cnt != pre + n) vf_fail("combine_each visited %d elements", cnt);
    vf_outcome("ok inits=%d", inits);
}
static void run_comb() {
    int pre = (int)vf_param_int("pre", 0), n = (int)vf_param_int("n", 3);
    tbb::combinable<int> cb([] { ++inits; return 0; });
    std::vector<int*> addr(pre + n, nullptr);
    static int never; int parked = 0;
    for (int i = 0; i < pre; i++) spawn([&, i] { int& c = cb.local(); c = 100 + i; addr[i] = &c; parked++; vf_block_on(&never); });
    while (parked < pre) vf_yield();
    auto ids = gated(n, nullptr,
                     [&](int j) { int i = pre + j; int& c = cb.local(); if (i >= pre) { if (c != 0) vf_fail("combinable: fresh element carries %d", c); c = 100 + i; addr[i] = &c; } int& d = cb.local(); if (&d != addr[i] || d != 100 + i) vf_fail("combinable: second local() differs"); });
    open_window_and_join(ids);
    for (int i = 0; i < pre + n; i++) for (int j = 0; j < i; j++) if (addr[i] == addr[j]) vf_fail("threads %d and %d share one element", i, j);
    if (inits != pre + n) vf_fail("%d initialiser calls for %d threads", inits, pre + n);
    std::multiset<int> tags; cb.combine_each([&](int v) { tags.insert(v); }); for (int i = 0; i < pre + n; i++) if (tags.count(100 + i) != 1) vf_fail("combine_each visits thread %d's element %zu times", i, tags.count(100 + i));
    int total = cb.combine([](int a, int b) { return a + b; }); int want = 0; for (int i = 0; i < pre + n; i++) want += 100 + i; if (total != want) vf_fail("combine() = %d, expected %d", total, want);
    vf_outcome("ok inits=%d", inits);
}
// clear() / copy assignment (which clears first): afterwards the next local() of a thread that used the container before is a FIRST use again
template <class E> static void run_clear() { int mode = (int)vf_param_int("mode", 0);   // 0 clear(), 1 copy assignment from an empty container, 2 copy assignment from a container used by another thread
    E a([] { ++inits; return Cell{0, {0, 0, 0}}; }), other([] { ++inits; return Cell{0, {0, 0, 0}}; }); static int phase, arrived; phase = arrived = 0; Cell* again[2] = {nullptr, nullptr};
    if (mode == 2) { int t = spawn([&] { other.local().tag = 77; }); vf_join(t); }
    auto ids = gated(2, nullptr, [&](int i) { Cell& c = a.local(); c.tag = 100 + i; arrived++; while (phase < 1) vf_block_on(&phase);
        bool ex = true; Cell& d = a.local(ex); if (ex) vf_fail("after %s thread %d's next local() reports an existing element (tag %d): it was handed an element of the cleared contents", mode ? "copy assignment" : "clear()", i, d.tag);
        if (d.tag != 0) vf_fail("after %s thread %d's fresh element carries tag %d", mode ? "copy assignment" : "clear()", i, d.tag); d.tag = 200 + i; again[i] = &d;
        bool ex2 = false; Cell& e = a.local(ex2); if (!ex2 || &e != &d) vf_fail("second local() after the fresh one differs"); });
    vf_liveness(1); vf_gate_open(); while (arrived < 2) vf_yield();
    int before = inits; if (mode == 0) a.clear(); else a = other;
    if (mode != 2 && a.size() != 0) vf_fail("size() %zu right after clear", a.size());
    vf_window(1); phase = 1; vf_wake(&phase); join_all(ids); vf_window(0);
    size_t want = mode == 2 ? 3 : 2; if (a.size() != want) vf_fail("size() %zu after two threads used the container again (expected %zu)", a.size(), want);
    if (inits - before != 2) vf_fail("%d initialiser calls for two first uses after %s", inits - before, mode ? "copy assignment" : "clear()");
    std::multiset<int> tags; for (auto it = a.begin(); it != a.end(); ++it) tags.insert(it->tag); if (tags.count(200) != 1 || tags.count(201) != 1 || tags.size() != want) vf_fail("iteration after re-use visits %zu elements", tags.size());
    if (again[0] == again[1]) vf_fail("two threads share one element after re-use");
    vf_outcome("clear mode=%d ok", mode); }
// swap / move assignment: the thread-to-element mapping travels with the contents
template <class E> static void run_swap() { int mode = (int)vf_param_int("mode", 0);   // 0 swap, 1 move assignment
    E a([] { ++inits; return Cell{0, {0, 0, 0}}; }), b([] { ++inits; return Cell{0, {0, 0, 0}}; }); static int phase; Cell* first[2] = {nullptr, nullptr};
    auto ids = gated(2, nullptr, [&](int i) { E& mine = i == 0 ? a : b; Cell& c = mine.local(); c.tag = 100 + i; first[i] = &c; while (phase < 1) vf_block_on(&phase);
        if (mode == 0) { E& other = i == 0 ? b : a; bool ex = false; Cell& d = other.local(ex); if (!ex || &d != first[i] || d.tag != 100 + i) vf_fail("after swap(a,b) thread %d does not find its element in the other container (exists=%d tag=%d)", i, ex, d.tag);
                         bool ex2 = true; Cell& e = mine.local(ex2); if (ex2 || e.tag != 0) vf_fail("after swap(a,b) thread %d finds an old element (tag %d) in a container it never used", i, e.tag); }
        else { bool ex = false; Cell& d = a.local(ex); if (i == 1) { if (!ex || &d != first[1] || d.tag != 101) vf_fail("after a = std::move(b) the thread that used b does not find its element in a (exists=%d tag=%d)", ex, d.tag); }
               else { if (ex || d.tag != 0) vf_fail("after a = std::move(b) the thread that used the old a gets an element a no longer owns (exists=%d tag=%d)", ex, d.tag); } } });
    vf_window(1); vf_gate_open(); while (!first[0] || !first[1]) vf_yield();
    if (mode == 0) { E tmp(std::move(a)); a = std::move(b); b = std::move(tmp); } else a = std::move(b);
    phase = 1; vf_wake(&phase); join_all(ids); vf_window(0);
    size_t na = a.size(), nb = b.size(); if (mode == 0 ? (na != 2 || nb != 2) : (na != 2)) vf_fail("sizes after %s: a=%zu b=%zu", mode == 0 ? "swap" : "move", na, nb);
    vf_outcome("ok mode=%d", mode); }
static void scenario() { const char* k = vf_param("kind", "ets");
    if (streq(k, "swap")) { run_swap<tbb::enumerable_thread_specific<Cell>>(); return; }
    if (streq(k, "clear")) { run_clear<tbb::enumerable_thread_specific<Cell>>(); return; }
    if (streq(k, "clear_key")) { run_clear<tbb::enumerable_thread_specific<Cell, tbb::cache_aligned_allocator<Cell>, tbb::ets_key_per_instance>>(); return; }
    if (streq(k, "swap_key")) { run_swap<tbb::enumerable_thread_specific<Cell, tbb::cache_aligned_allocator<Cell>, tbb::ets_key_per_instance>>(); return; }
    if (streq(k, "ets")) run_ets<tbb::enumerable_thread_specific<Cell>>();
    else if (streq(k, "ets_park")) run_ets<tbb::enumerable_thread_specific<Cell, ParkAlloc<Cell>>>();
    else if (streq(k, "ets_key")) run_ets<tbb::enumerable_thread_specific<Cell, tbb::cache_aligned_allocator<Cell>, tbb::ets_key_per_instance>>();
    else run_comb(); }
int main(int argc, char** argv) { return vf_main(argc, argv, scenario); }
