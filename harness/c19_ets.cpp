// VF-BUILD: tbb
// C19 (thread-specific storage) - enumerable_thread_specific / combinable: one element per thread, one initialiser call
// each, stable addresses, combine/iteration visit each element once, while the internal table grows.
// -p pre=K (K threads register before the window)  -p n=N (N threads call local() for the first time inside the window)
// -p kind=ets|ets_key|comb
#include <oneapi/tbb/enumerable_thread_specific.h>
#include <oneapi/tbb/combinable.h>
#include "vfh.h"
#include <set>
using namespace vfh;
static int inits = 0;
struct Cell { int tag; int pad[3]; };
template <class E> static void run_ets() {
    int pre = (int)vf_param_int("pre", 0), n = (int)vf_param_int("n", 3);
    E ets([] { ++inits; return Cell{0, {0, 0, 0}}; });
    std::vector<Cell*> addr(pre + n, nullptr), addr2(pre + n, nullptr); std::vector<int> exists(pre + n, -1);
    static int never; int parked = 0;
    for (int i = 0; i < pre; i++) spawn([&, i] { Cell& c = ets.local(); c.tag = 100 + i; addr[i] = addr2[i] = &c; exists[i] = 1; parked++; vf_block_on(&never); });   // registered threads stay alive, outside the window
    while (parked < pre) vf_yield();
    auto ids = gated(n, nullptr,
                     [&](int j) { int i = pre + j; bool ex = true; Cell& c = ets.local(ex); exists[i] = ex; if (i >= pre) { if (c.tag != 0) vf_fail("thread %d got an element that already carries tag %d", i, c.tag); c.tag = 100 + i; addr[i] = &c; }
                                  Cell& d = ets.local(); addr2[i] = &d; if (d.tag != 100 + i) vf_fail("thread %d's second local() returned another element (tag %d)", i, d.tag); });
    open_window_and_join(ids);
    for (int i = 0; i < pre + n; i++) { if (addr[i] != addr2[i]) vf_fail("element of thread %d changed address", i); if (exists[i] != (i < pre)) vf_fail("local(exists) reported %d for thread %d", exists[i], i);
        for (int j = 0; j < i; j++) if (addr[i] == addr[j]) vf_fail("threads %d and %d share one element", i, j); }
    if (inits != pre + n) vf_fail("%d initialiser calls for %d threads", inits, pre + n);
    std::multiset<int> tags; for (auto it = ets.begin(); it != ets.end(); ++it) tags.insert(it->tag);
    if ((int)ets.size() != pre + n || (int)tags.size() != pre + n) vf_fail("size() %zu / iteration %zu elements for %d threads", ets.size(), tags.size(), pre + n);
    for (int i = 0; i < pre + n; i++) if (tags.count(100 + i) != 1) vf_fail("iteration visits the element of thread %d %zu times", i, tags.count(100 + i));
    int sum = 0, cnt = 0; ets.combine_each([&](const Cell& c) { sum += c.tag; cnt++; }); if (cnt != pre + n) vf_fail("combine_each visited %d elements", cnt);
    vf_outcome("ok inits=%d", inits);
}
static void run_comb() {
    int pre = (int)vf_param_int("pre", 0), n = (int)vf_param_int("n", 3);
    tbb::combinable<int> cb([] { ++inits; return 0; });
    std::vector<int*> addr(pre + n, nullptr);
    static int never; int parked = 0;
    for (int i = 0; i < pre; i++) spawn([&, i] { int& c = cb.local(); c = 100 + i; addr[i] = &c; parked++; vf_block_on(&never); });
    while (parked < pre) vf_yield();
    auto ids = gated(n, nullptr,
                     [&](int j) { int i = pre + j; int& c = cb.local(); if (i >= pre) { if (c != 0) vf_fail("combinable: fresh element carries %d", c); c = 100 + i; addr[i] = &c; } int& d = cb.local(); if (&d != addr[i] || d != 100 + i) vf_fail("combinable: second local() differs"); });
    open_window_and_join(ids);
    for (int i = 0; i < pre + n; i++) for (int j = 0; j < i; j++) if (addr[i] == addr[j]) vf_fail("threads %d and %d share one element", i, j);
    if (inits != pre + n) vf_fail("%d initialiser calls for %d threads", inits, pre + n);
    std::multiset<int> tags; cb.combine_each([&](int v) { tags.insert(v); }); for (int i = 0; i < pre + n; i++) if (tags.count(100 + i) != 1) vf_fail("combine_each visits thread %d's element %zu times", i, tags.count(100 + i));
    int total = cb.combine([](int a, int b) { return a + b; }); int want = 0; for (int i = 0; i < pre + n; i++) want += 100 + i; if (total != want) vf_fail("combine() = %d, expected %d", total, want);
    vf_outcome("ok inits=%d", inits);
}
static void scenario() { const char* k = vf_param("kind", "ets");
    if (streq(k, "ets")) run_ets<tbb::enumerable_thread_specific<Cell>>();
    else if (streq(k, "ets_key")) run_ets<tbb::enumerable_thread_specific<Cell, tbb::cache_aligned_allocator<Cell>, tbb::ets_key_per_instance>>();
    else run_comb(); }
int main(int argc, char** argv) { return vf_main(argc, argv, scenario); }
