// VF-BUILD: tbb
// C02 (4-6) - no lost wake-up on the real scheduler: a sleeping external waiter is woken by the last task; enqueued work runs
// although nobody waits (worker spinning / asleep / arena with one slot / parallelism limit 1 / two arenas, one worker);
// execute() with no free slot is served.  The main thread blocks on a harness event that only the task can signal, so a
// lost wake-up is a deadlock of the closed system.
// -p kind=wait_sleep|enqueue|enqueue1|enqueue_limit1|enqueue2|two_arenas|execute_full|execute_handover|enqueue_gc  -p asleep=0|1
#include <oneapi/tbb/task_group.h>
#include <oneapi/tbb/task_arena.h>
#include <oneapi/tbb/global_control.h>
#include "vfh.h"
using namespace vfh;
static int ev[4]; static int done[4];
static void signal_ev(int i) { done[i] = 1; vf_wake(&ev[i]); }
static void wait_ev(int i) { if (!done[i]) vf_block_on(&ev[i]); if (!done[i]) vf_fail("woken without the event"); }
static void scenario() {
    const char* k = vf_param("kind", "enqueue"); int asleep = (int)vf_param_int("asleep", 0);
    vf_liveness(1);
    if (streq(k, "wait_sleep")) { tbb::global_control gc(tbb::global_control::max_allowed_parallelism, 2); tbb::task_arena ar(2); int warm = 0, c0 = 0, c1 = 0;
        ar.execute([&] { tbb::task_group tg; tg.run([&] { warm++; }); tg.wait(); }); if (asleep) settle();
        // the worker takes the long task; the external thread runs out of work, goes to sleep in wait(); the worker's completion must wake it
        vf_window(1); ar.execute([&] { tbb::task_group tg; tg.run([&] { c0++; for (int i = 0; i < 6; i++) vf_yield(); }); tg.run([&] { c1++; }); tg.wait(); if (c0 != 1 || c1 != 1) vf_fail("wait returned early"); }); vf_window(0); }
    else if (streq(k, "enqueue")) { tbb::global_control gc(tbb::global_control::max_allowed_parallelism, 2); tbb::task_arena ar(2); int warm = 0;
        ar.execute([&] { tbb::task_group tg; tg.run([&] { warm++; }); tg.run([&] { warm++; }); tg.wait(); }); if (asleep) settle();
        vf_window(1); ar.enqueue([&] { signal_ev(0); }); wait_ev(0); vf_window(0); }
    else if (streq(k, "enqueue2")) { tbb::global_control gc(tbb::global_control::max_allowed_parallelism, 2); tbb::task_arena ar(2); int warm = 0;
        ar.execute([&] { tbb::task_group tg; tg.run([&] { warm++; }); tg.run([&] { warm++; }); tg.wait(); }); if (asleep) settle();
        vf_window(1); ar.enqueue([&] { signal_ev(0); }); wait_ev(0); ar.enqueue([&] { signal_ev(1); }); wait_ev(1); vf_window(0); }   // second enqueue meets a worker that is leaving
    else if (streq(k, "enqueue1")) { tbb::global_control gc(tbb::global_control::max_allowed_parallelism, 2); tbb::task_arena ar(1); ar.initialize();   // one slot: mandatory worker
        vf_window(1); ar.enqueue([&] { signal_ev(0); }); wait_ev(0); vf_window(0); }
    else if (streq(k, "enqueue_limit1")) { tbb::global_control gc(tbb::global_control::max_allowed_parallelism, 1); tbb::task_arena ar(2); ar.initialize();   // soft limit 0: mandatory concurrency
        vf_window(1); ar.enqueue([&] { signal_ev(0); }); wait_ev(0); ar.enqueue([&] { signal_ev(1); }); wait_ev(1); vf_window(0); }
    else if (streq(k, "enqueue_prio_limit1")) { tbb::global_control gc(tbb::global_control::max_allowed_parallelism, 1);   // soft limit 0, two priority levels
        tbb::task_arena high(4, 1, tbb::task_arena::priority::high), low(4, 1, tbb::task_arena::priority::low); high.initialize(); low.initialize();
        vf_window(1); int first = 0;
        high.execute([&] { tbb::task_group tg; auto body = [&] { if (first++) return;   /* the second task stays in the pool of the main thread: 'high' keeps ordinary (spawned) demand */
                low.enqueue([&] { signal_ev(0); }); wait_ev(0); }; tg.run(body); tg.run(body); tg.wait(); });
        vf_window(0); }
    else if (streq(k, "enqueue_gc")) { tbb::task_arena ar(2); ar.initialize();   // the limit is lowered to 1 while the enqueue is in flight
        int t = spawn([&] { vf_gate_wait(); tbb::global_control gc(tbb::global_control::max_allowed_parallelism, 1); vf_point(); }); while (vf_gate_count() < 1) vf_yield();
        { tbb::global_control gc(tbb::global_control::max_allowed_parallelism, 2); vf_window(1); vf_gate_open(); ar.enqueue([&] { signal_ev(0); }); wait_ev(0); vf_join(t); vf_window(0); } }
    else if (streq(k, "gc_pending")) {   // the parallelism limit drops to 1 (soft limit 0) while a mandatory request is ALREADY pending and not being served:
        // arena A(2,1) is saturated by two application threads parked inside execute(), a task is enqueued into A (nobody can serve it), then the limit is lowered,
        // then a task is enqueued into an idle arena B - it must run -, then the threads leave A and the task enqueued into A must run too
        tbb::task_arena A(2, 1), B(2); A.initialize(); B.initialize(); static int inA, leave; inA = leave = 0;
        int t1 = spawn([&] { (void)tbb::this_task_arena::max_concurrency(); A.execute([&] { inA++; vf_wake(&inA); while (!leave) vf_block_on(&leave); }); });
        int t2 = spawn([&] { (void)tbb::this_task_arena::max_concurrency(); vf_gate_wait();
            A.enqueue([&] { signal_ev(0); });                                                       // pending mandatory request, A has no free slot
            tbb::global_control gc(tbb::global_control::max_allowed_parallelism, 1);               // soft limit 2 -> 0 while it is pending
            B.enqueue([&] { signal_ev(1); }); wait_ev(1);                                           // an idle arena: the enqueued task must still get its (mandatory) worker
            leave = 1; vf_wake(&leave); wait_ev(0); });
        { tbb::global_control gc0(tbb::global_control::max_allowed_parallelism, 3);
          A.execute([&] { while (inA < 1) vf_block_on(&inA); settle(); while (vf_gate_count() < 1) vf_yield(); vf_window(1); vf_gate_open(); while (!leave) vf_block_on(&leave); });
          vf_join(t1); vf_join(t2); vf_window(0); } }
    else if (streq(k, "two_arenas")) { tbb::global_control gc(tbb::global_control::max_allowed_parallelism, 2); tbb::task_arena a(2), b(2); a.initialize(); b.initialize();   // one worker, two arenas with enqueued work
        vf_window(1); a.enqueue([&] { signal_ev(0); }); b.enqueue([&] { signal_ev(1); }); wait_ev(0); wait_ev(1); vf_window(0); }
    else if (streq(k, "execute_full")) { tbb::global_control gc(tbb::global_control::max_allowed_parallelism, 2); tbb::task_arena ar(2, 1); ar.initialize(); int inside = 0, c[3] = {0, 0, 0};
        // reserved slot taken by main, the other slot by the worker or an external thread: the third entrant must be served via delegation / exit monitor
        auto ids = gated(2, [&](int) { (void)tbb::this_task_arena::max_concurrency(); }, [&](int i) { ar.execute([&, i] { c[i]++; vf_point(); }); });
        vf_window(1); vf_gate_open(); ar.execute([&] { c[2]++; vf_point(); vf_point(); }); join_all(ids); vf_window(0); for (int i = 0; i < 3; i++) if (c[i] != 1) vf_fail("execute functor %d ran %d times", i, c[i]); }
    else if (streq(k, "execute_handover")) {   // a freed slot is announced to ONE sleeper; if that one no longer needs it, it must pass the announcement on
        // task_arena(2,1): main holds the reserved slot, the worker the other one.  T1 and T2 sleep in execute() (delegated functors queued).  The worker runs T1's functor, then a task that
        // waits for T2's functor, which sits behind it in the queue - so only T2 itself, entering the slot main frees, can run it.
        tbb::global_control gc(tbb::global_control::max_allowed_parallelism, 2); tbb::task_arena ar(2, 1); ar.initialize();
        static int go1, go2, left, f1_started, f2_done, k_timeout, k_done;
        int t1 = spawn([&] { (void)tbb::this_task_arena::max_concurrency(); while (!go1) vf_block_on(&go1); ar.execute([&] { f1_started = 1; vf_wake(&f1_started); while (!left) vf_block_on(&left); }); });
        int t2 = spawn([&] { (void)tbb::this_task_arena::max_concurrency(); while (!go2) vf_block_on(&go2); ar.execute([&] { f2_done = 1; }); });
        ar.execute([&] { tbb::task_group warm; warm.run([] {}); warm.wait();
            go1 = 1; vf_wake(&go1); while (!f1_started) vf_block_on(&f1_started); settle();                 // T1 asleep in the exit monitor, its functor running on the worker
            ar.enqueue([&] { for (int i = 0; i < 400 && !f2_done; i++) vf_yield(); if (!f2_done) k_timeout = 1; k_done = 1; });   // queued before T2's functor
            go2 = 1; vf_wake(&go2); settle();                                                               // T2 asleep too
            vf_window(1); left = 1; vf_wake(&left); });                                                     // main leaves: one sleeper is told about the free slot
        vf_join(t1); vf_join(t2); for (int i = 0; i < 3000 && !k_done; i++) vf_yield(); vf_window(0);
        if (k_timeout) vf_fail("task_arena::execute: a thread kept sleeping next to a free arena slot (the slot hand-over was not passed on by a woken thread that no longer needed it)");
        if (!f2_done) vf_fail("execute functor never ran"); }
    else vf_fail("unknown kind");
    vf_liveness(0);
    vf_outcome("ok main_sleeps=%d", vf_nblocks() > 0);
}
int main(int argc, char** argv) { return vf_main(argc, argv, scenario); }
