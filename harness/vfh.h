// vfh.h - helpers shared by the harnesses: lambda threads, operation log, brute-force linearizability checker.
#pragma once
#include "vf.h"
#include <functional>
#include <vector>
#include <string>
#include <cstring>
#include <cstdio>
#include <cstdlib>
#include <algorithm>

namespace vfh {

inline void tramp(void* p) { auto* f = static_cast<std::function<void()>*>(p); (*f)(); }
// Threads are never destroyed inside an execution (DESIGN section 14: TLS destructors run outside the scheduler).
inline int spawn(std::function<void()> f) { return vf_thread(tramp, new std::function<void()>(std::move(f))); }
inline void join_all(const std::vector<int>& ids) { for (int i : ids) vf_join(i); }

// Start n threads that each run init(i) outside the window, park at a gate, then run body(i) inside the window.
inline std::vector<int> gated(int n, std::function<void(int)> init, std::function<void(int)> body) {
    std::vector<int> ids;
    for (int i = 0; i < n; i++) ids.push_back(spawn([=] { if (init) init(i); vf_gate_wait(); body(i); }));
    while (vf_gate_count() < n) vf_yield();
    return ids;
}
inline void open_window_and_join(const std::vector<int>& ids) { vf_window(1); vf_gate_open(); join_all(ids); vf_window(0); }

// ---------------------------------------------------------------- operation log
struct Op { int thread; int kind; long arg; long res; unsigned long t0, t1; bool done; };
struct Log {
    std::vector<Op> ops;
    int begin(int kind, long arg) { Op o; o.thread = vf_self(); o.kind = kind; o.arg = arg; o.res = 0; o.t0 = vf_stamp(); o.t1 = ~0ul; o.done = false; ops.push_back(o); return (int)ops.size() - 1; }
    void end(int i, long res) { ops[i].res = res; ops[i].t1 = vf_stamp(); ops[i].done = true; }
    std::string str(const char* const* names) const {
        std::string s; char b[96];
        for (auto& o : ops) { snprintf(b, sizeof b, "T%d:%s(%ld)=%s%ld@[%lu,%lu] ", o.thread, names[o.kind], o.arg, o.done ? "" : "?", o.res, o.t0, o.done ? o.t1 : 0ul); s += b; }
        return s; }
};

// Brute-force linearizability: Model must provide `bool apply(const Op&, bool check_result)` (returns false if the
// recorded result is impossible in the current state) and be copyable.  Pending ops (done==false) may take effect
// at any point after their call or never.
template <class Model>
bool lin_rec(const std::vector<Op>& ops, std::vector<char>& used, int remaining_done, const Model& m) {
    if (remaining_done == 0) return true;
    unsigned long min_t1 = ~0ul;   // an op may go next only if no unlinearized *completed* op returned before its call
    for (size_t i = 0; i < ops.size(); i++) if (!used[i] && ops[i].done) min_t1 = std::min(min_t1, ops[i].t1);
    for (size_t i = 0; i < ops.size(); i++) {
        if (used[i] || ops[i].t0 > min_t1) continue;
        Model m2 = m;
        if (!m2.apply(ops[i], ops[i].done)) continue;
        used[i] = 1;
        bool ok = lin_rec(ops, used, remaining_done - (ops[i].done ? 1 : 0), m2);
        used[i] = 0;
        if (ok) return true;
    }
    return false;
}
template <class Model>
bool linearizable(const std::vector<Op>& ops, const Model& init) {
    std::vector<char> used(ops.size(), 0); int nd = 0; for (auto& o : ops) nd += o.done;
    return lin_rec(ops, used, nd, init);
}

// Is there a linearization of the COMPLETED operations (pending ones take no effect) whose final state satisfies `fin`?
template <class Model, class Fin>
bool lin_final_rec(const std::vector<Op>& ops, std::vector<char>& used, int remaining, const Model& m, Fin& fin) {
    if (remaining == 0) return fin(m);
    unsigned long min_t1 = ~0ul;
    for (size_t i = 0; i < ops.size(); i++) if (!used[i] && ops[i].done) min_t1 = std::min(min_t1, ops[i].t1);
    for (size_t i = 0; i < ops.size(); i++) {
        if (used[i] || !ops[i].done || ops[i].t0 > min_t1) continue;
        Model m2 = m;
        if (!m2.apply(ops[i], true)) continue;
        used[i] = 1; bool ok = lin_final_rec(ops, used, remaining - 1, m2, fin); used[i] = 0;
        if (ok) return true;
    }
    return false;
}
template <class Model, class Fin>
bool linearizable_final(const std::vector<Op>& ops, const Model& init, Fin fin) {
    std::vector<char> used(ops.size(), 0); int nd = 0; for (auto& o : ops) nd += o.done;
    return lin_final_rec(ops, used, nd, init, fin);
}

// let library worker threads run until they all sleep (or park); bounded
inline void settle(int max_yields = 2000) { for (int i = 0; i < max_yields && !vf_others_idle(); i++) vf_yield(); }
inline bool streq(const char* a, const char* b) { return !strcmp(a, b); }
} // namespace vfh
