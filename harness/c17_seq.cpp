// VF-BUILD: malloc noinstr
// C17 (sequential legs) - every successful allocation is disjoint from live blocks, aligned, big enough, zeroed for calloc,
// keeps its prefix across realloc; the allocator never writes into a live block.  Exhaustive single-operation sweep over sizes
// and alignments, and all operation sequences up to -p depth=D over a 12-symbol alphabet, each on a fresh memory pool.
#include <oneapi/tbb/scalable_allocator.h>
#include "vfh.h"
#include "vfmalloc.h"
#include <vector>
static const long NA = 1100;                       // sizes 0..70399 in blocks of 64
static std::vector<size_t> bsizes, aligns; static long NB, NC, ND; static int depth;
static size_t natural_align(size_t n) { return n <= 8 ? 8 : 16; }
static void one_size(size_t n, ShadowHeap& h) {
    void* p = scalable_malloc(n); if (!p) { if (n < (1ul << 30)) vf_fail("scalable_malloc(%zu) failed", n); return; }
    h.add(p, n, natural_align(n), "scalable_malloc"); if (scalable_msize(p) < n) vf_fail("scalable_msize %zu < requested %zu", scalable_msize(p), n);
    void* c = n <= (1u << 26) ? scalable_calloc(n ? 1 : 0, n) : nullptr; if (c) { for (size_t i = 0; i < n; i++) if (((unsigned char*)c)[i]) vf_fail("scalable_calloc(%zu) not zero-filled at %zu", n, i); h.add(c, n, natural_align(n), "scalable_calloc"); }
    h.check_all("after calloc");
    // calloc must also zero a block that comes back from a cache with its old contents: dirty a block of this size, free it, calloc again
    if (n && n <= (1u << 26)) { unsigned char* d = (unsigned char*)scalable_malloc(n); if (!d) vf_fail("scalable_malloc(%zu) failed", n); memset(d, 0xA5, n); scalable_free(d);
        unsigned char* z = (unsigned char*)scalable_calloc(1, n); if (!z) vf_fail("scalable_calloc(1,%zu) failed", n); for (size_t i = 0; i < n; i++) if (z[i]) vf_fail("scalable_calloc(1,%zu) returned a recycled block that is not zero-filled (byte 0x%02x at offset %zu)", n, z[i], i);
        h.add(z, n, natural_align(n), "scalable_calloc"); h.check_all("after calloc of a recycled block"); h.take(z, "free"); scalable_free(z); }
    // realloc grow and shrink keep the prefix
    ShadowHeap::Blk b = h.take(p, "realloc"); size_t n2 = n + n / 2 + 1; void* q = scalable_realloc(p, n2);
    if (q) { if (!ShadowHeap::intact((unsigned char*)q, b.n, b.pat, b.n < n2 ? b.n : n2)) vf_fail("scalable_realloc(%zu -> %zu) lost the old contents", n, n2); h.add(q, n2, 0, "scalable_realloc"); p = q; } else { h.live[(unsigned char*)p] = b; }
    b = h.take(p, "realloc-shrink"); size_t cur = b.n, n3 = n / 2 + 1; q = scalable_realloc(p, n3);
    if (q) { if (!ShadowHeap::intact((unsigned char*)q, cur, b.pat, cur < n3 ? cur : n3)) vf_fail("scalable_realloc shrink (%zu -> %zu) lost the old contents", cur, n3); h.add(q, n3, 0, "scalable_realloc"); p = q; } else vf_fail("shrinking realloc failed");
    h.check_all("after realloc");
    h.take(p, "free"); scalable_free(p); if (c) { h.take(c, "free"); scalable_free(c); }
}
static void one_align(size_t a, size_t n, ShadowHeap& h) {
    bool valid = a && !(a & (a - 1));
    void* p = scalable_aligned_malloc(n, a);
    if (!valid || n == 0) { if (p && !valid) vf_fail("scalable_aligned_malloc accepted invalid alignment %zu", a); if (p) scalable_aligned_free(p); }
    else if (p) { h.add(p, n, a, "scalable_aligned_malloc"); if (scalable_msize(p) < n) vf_fail("msize %zu < %zu (aligned)", scalable_msize(p), n);
        ShadowHeap::Blk b = h.take(p, "aligned_realloc"); void* q = scalable_aligned_realloc(p, n * 2 + 3, a); if (q) { if (!ShadowHeap::intact((unsigned char*)q, b.n, b.pat, b.n)) vf_fail("scalable_aligned_realloc lost contents"); h.add(q, n * 2 + 3, a, "scalable_aligned_realloc"); p = q; } else h.live[(unsigned char*)p] = b;
        h.take(p, "free"); scalable_aligned_free(p); }
    else if (a <= (1u << 20) && n < (1u << 28)) vf_fail("scalable_aligned_malloc(%zu,%zu) failed", n, a);
    void* m = nullptr; int rc = scalable_posix_memalign(&m, a, n);
    if (rc == 0) { if (!valid || a < sizeof(void*)) vf_fail("scalable_posix_memalign accepted alignment %zu", a); if (m) { h.add(m, n, a, "scalable_posix_memalign"); h.take(m, "free"); scalable_free(m); } }
}
// ---- sequences on a fresh pool
struct Raw { std::vector<std::pair<char*, size_t>> regions; };
static Raw* g_raw;
static void* raw_alloc(std::intptr_t, std::size_t& bytes) { char* p = (char*)aligned_alloc(4096, (bytes + 4095) & ~(size_t)4095); g_raw->regions.push_back({p, bytes}); return p; }
static int raw_free(std::intptr_t, void* p, std::size_t) { for (auto& r : g_raw->regions) if (r.first == p) { if (!r.second) vf_fail("raw region %p returned twice", p); r.second = 0; free(p); return 0; } vf_fail("pool returned a raw region it never obtained"); return 1; }
static bool inside_raw(void* p, size_t n) { for (auto& r : g_raw->regions) if (r.second && (char*)p >= r.first && (char*)p + n <= r.first + r.second) return true; return false; }
static void sequence(long code, std::string& desc) {
    Raw raw; g_raw = &raw; rml::MemPoolPolicy pol(raw_alloc, raw_free); rml::MemoryPool* pool = nullptr;
    if (rml::pool_create_v1(7, &pol, &pool) != rml::POOL_OK) vf_fail("pool_create_v1 failed");
    ShadowHeap h; std::vector<void*> order; static const size_t msz[6] = {8, 64, 1024, 8128, 20000, 300000}; static const char* nm[12] = {"m8", "m64", "m1024", "m8128", "m20000", "m300000", "free-oldest", "free-newest", "realloc", "aligned_realloc", "aligned_malloc", "reset"};
    for (int d = 0; d < depth; d++) { int op = (int)(code % 12); code /= 12; desc += nm[op]; desc += ' ';
        if (op < 6) { void* p = rml::pool_malloc(pool, msz[op]); if (!p) vf_fail("pool_malloc(%zu) failed", msz[op]); if (!inside_raw(p, msz[op])) vf_fail("pool block outside the pool's raw memory"); h.add(p, msz[op], natural_align(msz[op]), "pool_malloc"); if (rml::pool_msize(pool, p) < msz[op]) vf_fail("pool_msize too small"); if (rml::pool_identify(p) != pool) vf_fail("pool_identify names another pool"); order.push_back(p); }
        else if (op == 6 || op == 7) { if (order.empty()) continue; void* p = op == 6 ? order.front() : order.back(); if (op == 6) order.erase(order.begin()); else order.pop_back(); h.take(p, "pool_free"); if (!rml::pool_free(pool, p)) vf_fail("pool_free failed"); }
        else if (op == 8 || op == 9) { if (order.empty()) continue; void* p = order.back(); ShadowHeap::Blk b = h.take(p, "pool_realloc"); size_t n2 = op == 8 ? 3000 : 100; void* q = op == 8 ? rml::pool_realloc(pool, p, n2) : rml::pool_aligned_realloc(pool, p, n2, 64);
            if (!q) vf_fail("pool realloc failed"); if (!ShadowHeap::intact((unsigned char*)q, b.n, b.pat, b.n < n2 ? b.n : n2)) vf_fail("pool realloc lost contents"); if (!inside_raw(q, n2)) vf_fail("pool block outside the pool's raw memory"); h.add(q, n2, op == 9 ? 64 : 0, "pool_realloc"); order.back() = q; }
        else if (op == 10) { void* p = rml::pool_aligned_malloc(pool, 200, 4096); if (!p) vf_fail("pool_aligned_malloc failed"); if (!inside_raw(p, 200)) vf_fail("pool block outside the pool's raw memory"); h.add(p, 200, 4096, "pool_aligned_malloc"); order.push_back(p); }
        else { h.check_all("before reset"); if (!rml::pool_reset(pool)) vf_fail("pool_reset failed"); h.live.clear(); order.clear(); }
        h.check_all(nm[op]); }
    if (!rml::pool_destroy(pool)) vf_fail("pool_destroy failed");
    for (auto& r : raw.regions) if (r.second) vf_fail("pool_destroy did not return raw region %p", (void*)r.first);
}
// ---- two large blocks that may share one memory region: realloc of one must not disturb the other.  a is allocated into a fresh
// region, b is chosen to (nearly) fill the rest of it for every 8-byte step of slack, then b is grown / shrunk by realloc.
static void region_share(long c, ShadowHeap& h) {
    static const size_t AS[3] = {900000, 1200000, 2000000}; size_t a = AS[c % 3]; c /= 3; size_t slack = (size_t)c * 8; size_t b = (4u << 20) - a - slack;
    unsigned char* pa = (unsigned char*)scalable_malloc(a); unsigned char* pb = (unsigned char*)scalable_malloc(b); if (!pa || !pb) vf_fail("scalable_malloc failed"); h.add(pa, a, 16, "scalable_malloc"); h.add(pb, b, 16, "scalable_malloc");
    for (size_t to : {(size_t)6 << 20, (size_t)1100000, (size_t)9 << 20}) { ShadowHeap::Blk blk = h.take(pb, "realloc"); unsigned char* q = (unsigned char*)scalable_realloc(pb, to); if (!q) vf_fail("scalable_realloc(%zu -> %zu) failed", blk.n, to);
        if (!ShadowHeap::intact(q, blk.n, blk.pat, blk.n < to ? blk.n : to)) vf_fail("scalable_realloc(%zu -> %zu) lost the old contents", blk.n, to); h.add(q, to, 16, "scalable_realloc"); if (scalable_msize(q) < to) vf_fail("msize after realloc too small"); pb = q;
        h.check_all("after realloc of the neighbouring large block"); if (scalable_msize(pa) < a) vf_fail("msize of the untouched block changed to %zu", scalable_msize(pa)); }
    h.take(pa, "free"); scalable_free(pa); h.take(pb, "free"); scalable_free(pb);
}
static long NE = 3 * 2048;
// ---- over-aligned requests whose size, or size + alignment, sits on a size-class boundary (last segregated size, the fitting sizes, the
// first large size): four blocks in a row (so that a block that is aligned by chance does not hide a wrong path), each checked for
// alignment, msize, disjointness and pattern survival, then realloc to the same and to a larger size, then freed out of order.
static const size_t FB[7] = {1024, 1792, 2688, 4032, 5376, 8128, 8129}; static const long NF = 10 * 7 * 5 * 2;
static void aligned_boundary(long c, ShadowHeap& h, char* desc) {
    int sum = (int)(c % 2); c /= 2; long d = c % 5 - 2; c /= 5; size_t B = FB[c % 7]; c /= 7; size_t a = (size_t)16 << c;
    long nn = (long)B + d - (sum ? (long)a : 0); sprintf(desc, "aligned boundary a=%zu n=%ld", a, nn); if (nn <= 0) return; size_t n = (size_t)nn;
    unsigned char* p[4];
    for (int i = 0; i < 4; i++) { p[i] = (unsigned char*)scalable_aligned_malloc(n, a); if (!p[i]) vf_fail("scalable_aligned_malloc(%zu,%zu) failed", n, a); h.add(p[i], n, a, "scalable_aligned_malloc");
        if (scalable_msize(p[i]) < n) vf_fail("scalable_msize %zu < requested %zu for scalable_aligned_malloc(%zu, %zu)", scalable_msize(p[i]), n, n, a); h.check_all("after scalable_aligned_malloc"); }
    { ShadowHeap::Blk b = h.take(p[1], "aligned_realloc"); unsigned char* q = (unsigned char*)scalable_aligned_realloc(p[1], n, a); if (!q) vf_fail("scalable_aligned_realloc to the same size failed");
      if (!ShadowHeap::intact(q, b.n, b.pat, n)) vf_fail("scalable_aligned_realloc(%zu -> %zu, %zu) lost the old contents", n, n, a); h.add(q, n, a, "scalable_aligned_realloc"); p[1] = q; }
    { ShadowHeap::Blk b = h.take(p[2], "realloc"); unsigned char* q = (unsigned char*)scalable_realloc(p[2], n + 40); if (!q) vf_fail("scalable_realloc of an aligned block failed");
      if (!ShadowHeap::intact(q, b.n, b.pat, n)) vf_fail("scalable_realloc(%zu -> %zu) of a block from scalable_aligned_malloc(%zu, %zu) lost the old contents", n, n + 40, n, a); h.add(q, n + 40, 0, "scalable_realloc"); p[2] = q; }
    h.check_all("after realloc of over-aligned blocks");
    for (int i : {2, 0, 3, 1}) { h.take(p[i], "free"); scalable_free(p[i]); h.check_all("after free of an over-aligned block"); }
    void* again = scalable_malloc(n); if (!again) vf_fail("scalable_malloc failed"); h.add(again, n, natural_align(n), "scalable_malloc"); h.check_all("malloc after the frees"); h.take(again, "free"); scalable_free(again);
}
static void scenario(long c) {
    ShadowHeap h;
    if (c < NA) { for (size_t n = (size_t)c * 64; n < (size_t)(c + 1) * 64; n++) one_size(n, h); vf_outcome("sizes %ld..%ld", c * 64, c * 64 + 63); }
    else if (c < NA + NB) { size_t n = bsizes[c - NA]; one_size(n, h); vf_outcome("size %zu", n);
        if (c == NA) {   /* calloc whose nobj * size is not representable must fail, whichever factor is the large one; a product that is representable is honoured */
            static const size_t OV[][2] = {{2, (size_t)1 << 63}, {(size_t)1 << 63, 2}, {SIZE_MAX / 3 + 1, 3}, {3, SIZE_MAX / 3 + 1}, {((size_t)1 << 40) + 5, (size_t)1 << 24}, {16, ((size_t)1 << 60) + 4}, {1000, SIZE_MAX / 1000 + 17}, {(size_t)1 << 32, (size_t)1 << 32}, {SIZE_MAX, SIZE_MAX}, {SIZE_MAX / 2, 3}, {65537, SIZE_MAX / 65536}};
            for (auto& o : OV) { void* p = scalable_calloc(o[0], o[1]); if (p) vf_fail("scalable_calloc(%zu, %zu) returned a block (scalable_msize %zu) although nobj * size is not representable", o[0], o[1], scalable_msize(p)); }
            void* q = scalable_calloc((size_t)1 << 20, 3); if (!q) vf_fail("scalable_calloc(2^20, 3) failed"); if (scalable_msize(q) < ((size_t)3 << 20)) vf_fail("scalable_calloc(2^20, 3): msize %zu", scalable_msize(q)); scalable_free(q); } }
    else if (c < NA + NB + NC) { long i = c - NA - NB; size_t a = aligns[i % aligns.size()], n = (size_t[]){1, 8, 63, 1000, 8129, 70000, 1u << 21}[i / aligns.size()]; one_align(a, n, h); vf_outcome("align %zu size %zu", a, n); }
    else if (c < NA + NB + NC + NE) { region_share(c - NA - NB - NC, h); vf_outcome("region share %ld", c - NA - NB - NC); }
    else if (c < NA + NB + NC + NE + NF) { char d[96]; aligned_boundary(c - NA - NB - NC - NE, h, d); vf_outcome("%s", d); }
    else { std::string d; sequence(c - NA - NB - NC - NE - NF, d); vf_outcome("%s", d.c_str()); }
    if (!h.live.empty()) vf_fail("harness error: live blocks left");
}
int main(int argc, char** argv) {
    for (int k = 10; k <= 34; k++) for (long d = -2; d <= 2; d++) bsizes.push_back(((size_t)1 << k) + d);
    for (size_t s : {8128ul, 8129ul, 16383ul, 16384ul - 128, 65535ul - 127, 1048576ul - 4096, 4194304ul - 1, 8388608ul + 4097}) bsizes.push_back(s);
    for (int k = 0; k <= 30; k++) aligns.push_back((size_t)1 << k); for (size_t a : {0ul, 3ul, 24ul, 100ul}) aligns.push_back(a);
    NB = (long)bsizes.size(); NC = (long)aligns.size() * 7; depth = 4; for (int i = 1; i + 1 < argc; i++) if (!strcmp(argv[i], "-p") && !strncmp(argv[i + 1], "depth=", 6)) depth = atoi(argv[i + 1] + 6);
    ND = 1; for (int i = 0; i < depth; i++) ND *= 12;
    return vf_main_cases(argc, argv, NA + NB + NC + NE + NF + ND, scenario);
}
