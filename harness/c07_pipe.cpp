// VF-BUILD: vtbb
// C07 - parallel_pipeline: every item passes every filter exactly once; all serial_in_order filters see the order of the first
// serial_in_order filter; a serial filter never has two live invocations; at most max_number_of_live_tokens items are in flight;
// the call returns only after end of input was signalled and every emitted item left the last filter.
// The real src/tbb/parallel_pipeline.cpp + filter templates run on the abstract scheduler vtbb: every filter body contains an
// interleave point at which another virtual worker may run a whole stage task (so invocations overlap), and every "which worker
// pops / steals next" is an explorer choice.  One case = (filter-mode sequence, tokens, items, P, item type[, stall]).
// -p lmax=3 -p tmax=3 -p imax=4 -p pmax=3      all mode sequences of length 1..lmax over {parallel, serial_in_order, serial_out_of_order}
// -p grow=2   : items 0..m-1 (m = 15..20) wait inside a filter until item m has passed it: the first token parked at the next serial filter lies more than one doubling beyond the 4-slot ring
// -p grow=1   : "stalled item" variants that park >= 4 tokens behind item 0 so that input_buffer::grow relocates parked items
#include <oneapi/tbb/parallel_pipeline.h>
#include "vtbb.h"
#include "vfh.h"
#include <string>
static int LMAX = 3, TMAX = 3, IMAX = 4, PMAX = 3, GROW = 0;
enum { PAR = 0, SIO = 1, SOO = 2 };
static const tbb::filter_mode FM[] = {tbb::filter_mode::parallel, tbb::filter_mode::serial_in_order, tbb::filter_mode::serial_out_of_order};
static const char MC[] = "pio";
struct Case { std::vector<int> modes; int tokens, items, P, big, stallf, stallk, stallm = 0; };
static long nseq(int lmax) { long s = 0, p = 1; for (int l = 1; l <= lmax; l++) { p *= 3; s += p; } return s; }
static std::vector<int> seq_of(long idx) { long p = 3; int l = 1; while (idx >= p) { idx -= p; p *= 3; l++; } std::vector<int> m(l); for (int i = 0; i < l; i++) { m[i] = (int)(idx % 3); idx /= 3; } return m; }
// grow variants: {modes, stall filter}: item 0 is stalled inside filter `stallf` while the other workers run `stallk` tasks
static const struct { const char* modes; int stallf; } GV[] = {{"ipi", 1}, {"ipi", 2}, {"ipo", 2}, {"ppi", 1}, {"ppo", 2}, {"iio", 2}, {"ipio", 1}, {"po", 1}, {"pi", 1}, {"ipip", 2}};
static long ncases() { if (GROW == 2) return (long)(sizeof GV / sizeof GV[0]) * 4 * 2 * 2; if (GROW) return (long)(sizeof GV / sizeof GV[0]) * 3 * 2 * 2 * 2 * 2; return nseq(LMAX) * TMAX * (IMAX + 1) * (PMAX - 1) * 2; }
static Case decode(long c) { Case k; k.stallf = -1; k.stallk = 0;
    if (GROW == 2) { int nv = (int)(sizeof GV / sizeof GV[0]); int v = (int)(c % nv); c /= nv; for (const char* q = GV[v].modes; *q; q++) k.modes.push_back(*q == 'p' ? PAR : *q == 'i' ? SIO : SOO); k.stallf = GV[v].stallf;
        static const int SM[] = {15, 16, 17, 20}; k.stallm = SM[c % 4]; c /= 4; k.tokens = k.stallm + 6 + (int)(c % 2); c /= 2; k.items = k.tokens + 3; k.P = k.stallm + 2; k.big = (int)(c % 2); k.stallk = 0; return k; }   // far tokens: the ring must grow by more than one doubling at once
    if (GROW) { int nv = (int)(sizeof GV / sizeof GV[0]); int v = (int)(c % nv); c /= nv; for (const char* q = GV[v].modes; *q; q++) k.modes.push_back(*q == 'p' ? PAR : *q == 'i' ? SIO : SOO); k.stallf = GV[v].stallf;
        k.tokens = 5 + (int)(c % 3); c /= 3; k.items = (c % 2) ? 9 : 6; c /= 2; k.P = 2 + (int)(c % 2); c /= 2; k.big = (int)(c % 2); c /= 2; k.stallk = (c % 2) ? 8 : 5; return k; }
    k.big = (int)(c % 2); c /= 2; k.P = 2 + (int)(c % (PMAX - 1)); c /= (PMAX - 1); k.items = (int)(c % (IMAX + 1)); c /= (IMAX + 1); k.tokens = 1 + (int)(c % TMAX); c /= TMAX; k.modes = seq_of(c); return k; }

struct Big { long id; long pad[3]; static int live; static long made; Big() : id(-1) { live++; made++; } Big(long i) : id(i) { live++; made++; } Big(const Big& o) : id(o.id) { live++; made++; } Big(Big&& o) : id(o.id) { live++; made++; o.id = -2; } ~Big() { if (id == -3) vf_fail("an item object was destroyed twice"); id = -3; live--; } Big& operator=(const Big& o) { id = o.id; return *this; } };
int Big::live = 0; long Big::made = 0;
template <class T> struct Conv; template <> struct Conv<int> { static int make(int id, int off) { return id + off; } static int id(int v, int off) { return v - off; } };
template <> struct Conv<Big> { static Big make(int id, int) { return Big(id); } static int id(const Big& v, int) { return (int)v.id; } };

struct St { Case k; int L; int produced = 0, inflight = 0, maxinflight = 0, stops = 0; bool returned = false; std::vector<std::vector<int>> cnt; std::vector<int> live; std::vector<std::vector<int>> seq; int first_sio = -1; int off = 0; std::vector<int> lastorder; bool far_done = false; };
static St* S;
static void enter(int f, int id) { St& s = *S; if (s.returned) vf_fail("filter %d invoked for item %d after parallel_pipeline had returned", f, id);
    if (id < 0 || id >= s.k.items) vf_fail("filter %d received item %d which the first filter never produced (items 0..%d)", f, id, s.k.items - 1);
    if (f > 0 && s.cnt[f - 1][id] != 1) vf_fail("item %d reached filter %d although it passed filter %d %d times", id, f, f - 1, s.cnt[f - 1][id]);
    if (++s.cnt[f][id] != 1) vf_fail("item %d passed filter %d twice", id, f);
    if (s.k.modes[f] != PAR && s.live[f] != 0) vf_fail("serial filter %d (%c) entered for item %d while another invocation of it is still running", f, MC[s.k.modes[f]], id);
    s.live[f]++; if (f == s.L - 1) s.lastorder.push_back(id);
    if (s.k.modes[f] == SIO) { s.seq[f].push_back(id); if (f != s.first_sio) { size_t n = s.seq[f].size(); const std::vector<int>& ref = s.seq[s.first_sio]; if (n > ref.size() || ref[n - 1] != id) vf_fail("serial_in_order filter %d processes item %d as its %zu-th item, but the first serial_in_order filter (%d) processed item %d at that position", f, id, n, s.first_sio, n <= ref.size() ? ref[n - 1] : -1); } }
    if (f == s.k.stallf && s.k.stallm > 0 && id < s.k.stallm) { while (!s.far_done) if (!vtbb::run_others(1)) break; }   // items 0..m-1 wait inside this filter until item m has gone past it
    else if (f == s.k.stallf && id == 0) vtbb::run_others(s.k.stallk);
    vtbb::nested(); vtbb::interleave(); }
static void leave(int f, int id) { St& s = *S; s.live[f]--; if (f == s.k.stallf && id == s.k.stallm) s.far_done = true; if (f == s.L - 1) { s.inflight--; } }
static bool produce(int& id) { St& s = *S; if (s.returned) vf_fail("the input filter was invoked after parallel_pipeline had returned");
    if (s.k.modes[0] != PAR && s.live[0] != 0) vf_fail("serial input filter invoked while another invocation of it is still running");
    if (s.produced == s.k.items) { s.stops++; return false; }
    id = s.produced++; if (++s.inflight > s.k.tokens) vf_fail("%d items in flight with max_number_of_live_tokens=%d", s.inflight, s.k.tokens); if (s.inflight > s.maxinflight) s.maxinflight = s.inflight; return true; }

template <class T> static tbb::filter<void, void> build(St& s) {
    int L = s.L; int off = s.off;
    auto first = [off](tbb::flow_control& fc) -> T { int id; if (!produce(id)) { fc.stop(); return T(); } enter(0, id); T v = Conv<T>::make(id, off); leave(0, id); return v; };
    if (L == 1) return tbb::make_filter<void, void>(FM[s.k.modes[0]], [](tbb::flow_control& fc) { int id; if (!produce(id)) { fc.stop(); return; } enter(0, id); leave(0, id); });
    tbb::filter<void, T> f = tbb::make_filter<void, T>(FM[s.k.modes[0]], first);
    for (int i = 1; i < L - 1; i++) f = f & tbb::make_filter<T, T>(FM[s.k.modes[i]], [i, off](T v) -> T { int id = Conv<T>::id(v, off); enter(i, id); leave(i, id); return v; });
    return f & tbb::make_filter<T, void>(FM[s.k.modes[L - 1]], [L, off](T v) { int id = Conv<T>::id(v, off); enter(L - 1, id); leave(L - 1, id); });
}
static void scenario(long c) {
    St s; s.k = decode(c); s.L = (int)s.k.modes.size(); S = &s; s.cnt.assign(s.L, std::vector<int>(s.k.items + 1, 0)); s.live.assign(s.L, 0); s.seq.assign(s.L, {}); for (int i = 0; i < s.L; i++) if (s.k.modes[i] == SIO && s.first_sio < 0) s.first_sio = i;
    s.off = s.k.modes[0] == PAR ? 1 : 0;   // a parallel input filter recognises end-of-input through thread-local storage, which the single OS thread of vtbb shares between virtual workers: keep int items non-null there
    Big::live = 0; vtbb::init(s.k.P);
    { tbb::filter<void, void> chain = s.k.big ? build<Big>(s) : build<int>(s); tbb::parallel_pipeline(s.k.tokens, chain); }
    s.returned = true; vtbb::finish();
    if (s.stops == 0) vf_fail("parallel_pipeline returned although the input filter never signalled end of input");
    if (s.produced != s.k.items) vf_fail("parallel_pipeline returned after %d of %d items", s.produced, s.k.items);
    for (int f = 0; f < s.L; f++) { if (s.live[f]) vf_fail("parallel_pipeline returned while filter %d is still running", f); for (int i = 0; i < s.k.items; i++) if (s.cnt[f][i] != 1) vf_fail("item %d passed filter %d %d times (modes %s)", i, f, s.cnt[f][i], ""); }
    if (s.inflight != 0) vf_fail("parallel_pipeline returned with %d items that never left the last filter", s.inflight);
    for (int f = 0; f < s.L; f++) if (s.k.modes[f] == SIO && s.seq[f] != s.seq[s.first_sio]) vf_fail("serial_in_order filters %d and %d saw different item orders", s.first_sio, f);
    if (Big::live != 0) vf_fail("%d item objects were not destroyed exactly once", Big::live);
    std::string m; for (int x : s.k.modes) m += MC[x]; vtbb::Stats st = vtbb::stats();
    int nbuf = 0; for (int f = 0; f < s.L; f++) if (s.k.modes[f] != PAR || f == 0) nbuf++;
    vf_outcome("%s tok=%d items=%d P=%d %s maxlive=%d steals=%ld grows=%ld order:", m.c_str(), s.k.tokens, s.k.items, s.k.P, s.k.big ? "big" : "int", s.maxinflight, st.steals, st.cache_allocs - nbuf); if (s.first_sio >= 0) for (int x : s.seq[s.first_sio]) vf_outcome("%d", x);
    vf_outcome(" last:"); for (int x : s.lastorder) vf_outcome("%d", x);
    S = nullptr;
}
int main(int argc, char** argv) {
    for (int i = 1; i + 1 < argc; i++) if (!strcmp(argv[i], "-p")) { const char* a = argv[i + 1]; if (!strncmp(a, "lmax=", 5)) LMAX = atoi(a + 5); if (!strncmp(a, "tmax=", 5)) TMAX = atoi(a + 5); if (!strncmp(a, "imax=", 5)) IMAX = atoi(a + 5); if (!strncmp(a, "pmax=", 5)) PMAX = atoi(a + 5); if (!strncmp(a, "grow=", 5)) GROW = atoi(a + 5); }
    return vf_main_cases(argc, argv, ncases(), scenario);
}
