// VF-BUILD: tbb whitebox
// C01 (a) - deque arbitration between the owner (spawn / get_task) and thieves (steal_task) on a real arena_slot.
// -p owner="SSGSGG"  (S spawn next task, G get_task)   -p thieves=N  -p steals=K (attempts per thief)
// -p prefill=F -p presteal=H : before the window the owner spawns F tasks and H of them are stolen (advances head, so that
//    spawning in the window compacts or grows the pool while thieves are active)
#include "governor.h"
#include "arena.h"
#include "arena_slot.h"
#include "thread_data.h"
#include "task_dispatcher.h"
#include "vfh.h"
using namespace vfh; using namespace tbb::detail;
struct T : d1::task { int id; d1::task* execute(d1::execution_data&) override { return nullptr; } d1::task* cancel(d1::execution_data&) override { return nullptr; } };
static void scenario() {
    r1::arena& a = r1::arena::allocate_arena(nullptr, 2, 1, 1);
    r1::arena_slot& s = a.my_slots[0];
    const char* prog = vf_param("owner", "SSGSGG"); int thieves = (int)vf_param_int("thieves", 1), steals = (int)vf_param_int("steals", 2);
    int prefill = (int)vf_param_int("prefill", 0), presteal = (int)vf_param_int("presteal", 0);
    static T tasks[512]; int next = 0; std::vector<int> seen(512, 0); int total = 0;
    r1::execution_data_ext ed{}; 
    for (int i = 0; i < prefill; i++) { tasks[next].id = next; s.spawn(tasks[next]); next++; }
    for (int i = 0; i < presteal; i++) { d1::task* t = s.steal_task(a, r1::no_isolation, 0); if (!t) vf_fail("setup steal failed"); seen[static_cast<T*>(t)->id]++; }
    total = next; int nspawn_in_window = 0; for (const char* p = prog; *p; p++) if (*p == 'S') nspawn_in_window++;
    // per-thread result lists: under -tso a thread can be preempted at a plain write, so shared bookkeeping would itself race
    static std::vector<int> got[8]; static std::string whot[8]; for (int i = 0; i < 8; i++) { got[i].clear(); whot[i].clear(); got[i].reserve(64); whot[i].reserve(64); }
    vf_liveness(1);
    auto ids = gated(1 + thieves, nullptr, [&](int i) {
        if (i == 0) { // owner
            for (const char* p = prog; *p; p++) {
                if (*p == 'S') { tasks[next].id = next; s.spawn(tasks[next]); next++; }
                else if (s.is_task_pool_published()) { d1::task* t = s.get_task(ed, r1::no_isolation); if (t) { int id = static_cast<T*>(t)->id; if (id < 0 || id >= next) vf_fail("owner got a task that was never spawned"); got[0].push_back(id); whot[0] += 'o'; } else whot[0] += '-'; }
            }
        } else { for (int k = 0; k < steals; k++) { d1::task* t = s.steal_task(a, r1::no_isolation, 0); if (t) { int id = static_cast<T*>(t)->id; if (id < 0 || id >= 512) vf_fail("thief got garbage"); got[i].push_back(id); whot[i] += 's'; } else whot[i] += '.'; } } });
    open_window_and_join(ids);
    vf_liveness(0);
    total = next; std::string who; for (int i = 0; i < 8; i++) { for (int id : got[i]) seen[id]++; who += whot[i]; if (i < thieves) who += '|'; }
    // the owner drains what is left
    while (s.is_task_pool_published()) { d1::task* t = s.get_task(ed, r1::no_isolation); if (!t) break; seen[static_cast<T*>(t)->id]++; }
    if (s.is_task_pool_published() && !s.is_empty()) vf_fail("pool not empty after the owner drained it");
    for (int i = 0; i < total; i++) if (seen[i] != 1) vf_fail("task %d obtained %d times (owner pops + steals)", i, seen[i]);
    vf_outcome("%s", who.c_str());
}
int main(int argc, char** argv) { return vf_main(argc, argv, scenario); }
