#!/usr/bin/env python3
"""Incremental build of the model-checking harnesses from /repo's *current working tree*.

Everything is keyed by a content hash of /repo/include + /repo/src (+ the engine sources and the flag set), so an
edited tree is always rebuilt and an unchanged one is reused.  DESIGN.md section 9.

Harness sources (/verif/harness/*.cpp) declare what they link against in a comment line:
    // VF-BUILD: tbb malloc whitebox variant=sc extra=-DFOO
      tbb      link the instrumented libtbb objects
      malloc   link the instrumented tbbmalloc objects
      whitebox -fno-access-control -iquote /repo/src/tbb -D__TBB_BUILD
      vtbb     link engine/vtbb.cpp (abstract task scheduler) instead of the libtbb scheduler objects
      variant  sc (default) | tso (plain accesses instrumented too)
"""
import hashlib, os, subprocess, sys, shutil, fcntl, time, re
from concurrent.futures import ThreadPoolExecutor

REPO = os.environ.get("VF_REPO", "/repo")
VERIF = os.path.dirname(os.path.dirname(os.path.abspath(__file__)))
BUILD = os.path.join(VERIF, "build")
CXX = "clang++"
FLAGSET_VERSION = "8"

INSTR = ["-fsanitize=thread", "-mllvm", "-tsan-instrument-func-entry-exit=0", "-mllvm", "-tsan-instrument-memintrinsics=0"]
INSTR_SC = INSTR + ["-mllvm", "-tsan-instrument-memory-accesses=0"]
COMMON = ["-std=c++17", "-O1", "-gline-tables-only", "-w", "-mrtm", "-mwaitpkg", "-pthread", "-fno-omit-frame-pointer",
          "-DONETBB_VERIF=1", "-D__TBB_DYNAMIC_LOAD_ENABLED=0", "-D__TBB_RESUMABLE_TASKS_USE_THREADS=0",
          "-D__TBB_NO_IMPLICIT_LINKAGE=1", "-D__TBBMALLOC_NO_IMPLICIT_LINKAGE=1",
          "-I" + os.path.join(REPO, "include"), "-I" + os.path.join(VERIF, "engine")]
# scheduler translation units replaced by vtbb
VTBB_EXCLUDE = {"arena.cpp", "arena_slot.cpp", "governor.cpp", "main.cpp", "market.cpp", "observer_proxy.cpp",
                "private_server.cpp", "rml_tbb.cpp", "small_object_pool.cpp", "task.cpp", "task_dispatcher.cpp",
                "task_group_context.cpp", "thread_dispatcher.cpp", "thread_request_serializer.cpp",
                "threading_control.cpp", "global_control.cpp", "tcm_adaptor.cpp", "dynamic_link.cpp", "itt_notify.cpp",
                "profiling.cpp", "misc_ex.cpp", "version.cpp", "misc.cpp", "allocator.cpp", "exception.cpp",
                "semaphore.cpp", "address_waiter.cpp", "concurrent_bounded_queue.cpp", "queuing_rw_mutex.cpp",
                "rtm_mutex.cpp", "rtm_rw_mutex.cpp"}
VTBB_KEEP = {"parallel_pipeline.cpp", "exception.cpp"}


def sh(cmd, **kw):
    r = subprocess.run(cmd, stdout=subprocess.PIPE, stderr=subprocess.STDOUT, text=True, **kw)
    return r.returncode, r.stdout


def tree_hash():
    h = hashlib.sha1()
    h.update(FLAGSET_VERSION.encode())
    roots = [os.path.join(REPO, "include"), os.path.join(REPO, "src", "tbb"), os.path.join(REPO, "src", "tbbmalloc")]
    return _hash_roots(h, roots)


def engine_hash():
    h = hashlib.sha1()
    h.update(FLAGSET_VERSION.encode())
    return _hash_roots(h, [os.path.join(VERIF, "engine")])[:8]


def _hash_roots(h, roots):
    for root in roots:
        for d, dn, fn in sorted(os.walk(root)):
            dn.sort()
            for f in sorted(fn):
                p = os.path.join(d, f)
                if not os.path.isfile(p):
                    continue
                h.update(p.encode())
                with open(p, "rb") as fh:
                    h.update(hashlib.sha1(fh.read()).digest())
    return h.hexdigest()[:16]


def file_hash(p):
    with open(p, "rb") as fh:
        return hashlib.sha1(fh.read()).hexdigest()[:10]


def compile_many(jobs, nproc=16):
    """jobs: list of (cmd, out). Skips existing outputs. Returns list of failures (out, log)."""
    todo = [(c, o) for c, o in jobs if not os.path.exists(o)]
    fails = []

    def run(job):
        cmd, out = job
        tmp = out + ".tmp%d" % os.getpid()
        rc, log = sh(cmd + ["-o", tmp])
        if rc == 0:
            os.replace(tmp, out)
            return None
        return (out, " ".join(cmd) + "\n" + log)
    with ThreadPoolExecutor(max_workers=nproc) as ex:
        for r in ex.map(run, todo):
            if r:
                fails.append(r)
    return fails


class BuildError(Exception):
    pass


def parse_spec(src):
    spec = {"tbb": False, "malloc": False, "whitebox": False, "vtbb": False, "variant": "sc", "extra": [], "noinstr": False, "access": False}
    with open(src) as f:
        for line in f:
            m = re.match(r"\s*//\s*VF-BUILD:\s*(.*)", line)
            if m:
                for tok in m.group(1).split():
                    if tok in ("tbb", "malloc", "whitebox", "vtbb", "noinstr", "access"):
                        spec[tok] = True
                    elif tok.startswith("variant="):
                        spec["variant"] = tok.split("=", 1)[1]
                    elif tok.startswith("extra="):
                        spec["extra"].append(tok.split("=", 1)[1])
                break
    return spec


def build(harnesses, verbose=False):
    """Build the named harnesses (basenames without .cpp). Returns {name: binary_path}."""
    os.makedirs(BUILD, exist_ok=True)
    lock = open(os.path.join(BUILD, ".lock"), "w")
    fcntl.flock(lock, fcntl.LOCK_EX)
    try:
        key = tree_hash()
        root = os.path.join(BUILD, key)
        os.makedirs(root, exist_ok=True)
        # garbage-collect older trees (keep the twelve most recently used besides this one; a running check touches its tree at every leg)
        olds = sorted([d for d in os.listdir(BUILD) if d != key and os.path.isdir(os.path.join(BUILD, d))],
                      key=lambda d: os.path.getmtime(os.path.join(BUILD, d)))
        for d in olds[:-12]:
            shutil.rmtree(os.path.join(BUILD, d), ignore_errors=True)
        os.utime(root, None)
        specs = {}
        for h in harnesses:   # "name@tso" = the same source built as the tso variant (plain accesses instrumented too)
            base, _, var = h.partition("@")
            sp = parse_spec(os.path.join(VERIF, "harness", base + ".cpp"))
            if var:
                sp["variant"] = var
            sp["base"] = base
            specs[h] = sp
        variants = set(s["variant"] for s in specs.values())
        need_tbb = any(s["tbb"] or s["vtbb"] for s in specs.values())
        need_malloc = any(s["malloc"] for s in specs.values())
        jobs = []
        # engine (never instrumented)
        ekey = engine_hash()
        edir = os.path.join(root, "engine-" + ekey)
        os.makedirs(edir, exist_ok=True)
        for f in ("vsched.cpp", "vrt.cpp"):
            jobs.append(([CXX, "-std=c++17", "-O2", "-w", "-pthread", "-fno-omit-frame-pointer", "-I" + os.path.join(VERIF, "engine"), "-c", os.path.join(VERIF, "engine", f)],
                         os.path.join(edir, f[:-4] + ".o")))
        for var in variants:
            instr = INSTR_SC if var == "sc" else INSTR
            if need_tbb:
                tdir = os.path.join(root, "tbb-" + var)
                os.makedirs(tdir, exist_ok=True)
                for f in sorted(os.listdir(os.path.join(REPO, "src", "tbb"))):
                    if f.endswith(".cpp"):
                        jobs.append(([CXX] + COMMON + instr + ["-D__TBB_BUILD", "-c", os.path.join(REPO, "src", "tbb", f)], os.path.join(tdir, f[:-4] + ".o")))
            if need_malloc:
                mdir = os.path.join(root, "malloc-" + var)
                os.makedirs(mdir, exist_ok=True)
                for f in ("frontend.cpp", "backend.cpp", "large_objects.cpp", "backref.cpp", "tbbmalloc.cpp"):
                    jobs.append(([CXX] + COMMON + instr + ["-D__TBBMALLOC_BUILD", "-fno-rtti", "-fno-exceptions", "-c", os.path.join(REPO, "src", "tbbmalloc", f)], os.path.join(mdir, f[:-4] + ".o")))
            if any(s["vtbb"] and s["variant"] == var for s in specs.values()):
                jobs.append(([CXX] + COMMON + instr + ["-D__TBB_BUILD", "-fno-access-control", "-iquote", os.path.join(REPO, "src", "tbb"), "-c", os.path.join(VERIF, "engine", "vtbb.cpp")], os.path.join(edir, "vtbb-%s.o" % var)))
        # harness objects
        bdir = os.path.join(root, "bin")
        os.makedirs(bdir, exist_ok=True)
        hobjs = {}
        for h, s in specs.items():
            src = os.path.join(VERIF, "harness", s["base"] + ".cpp")
            hh = file_hash(src) + ekey[:4]
            for inc in ("vfh.h",):
                ip = os.path.join(VERIF, "harness", inc)
                if os.path.exists(ip):
                    hh += file_hash(ip)[:6]
            obj = os.path.join(bdir, "%s.%s.o" % (h, hh))
            for old in os.listdir(bdir):   # drop stale builds of this harness
                if old.startswith(h + ".") and not old.startswith("%s.%s" % (h, hh)) and ".tmp" not in old:
                    try:
                        os.remove(os.path.join(bdir, old))
                    except OSError:
                        pass
            instr = [] if s["noinstr"] else (INSTR_SC if s["variant"] == "sc" else INSTR)
            cmd = [CXX] + COMMON + instr + ["-I" + os.path.join(VERIF, "harness")]
            if s["whitebox"] or s["vtbb"]:
                cmd += ["-fno-access-control", "-iquote", os.path.join(REPO, "src", "tbb"), "-D__TBB_BUILD"]
            if s["access"]:
                cmd += ["-fno-access-control"]
            if s["malloc"] and s["whitebox"]:
                cmd += ["-iquote", os.path.join(REPO, "src", "tbbmalloc")]
            cmd += s["extra"] + ["-c", src]
            jobs.append((cmd, obj))
            hobjs[h] = (obj, hh)
        t0 = time.time()
        fails = compile_many(jobs)
        if fails:
            raise BuildError("compile failed:\n" + "\n".join(l for _, l in fails)[:6000])
        # link
        out = {}
        ljobs = []
        for h, s in specs.items():
            obj, hh = hobjs[h]
            binp = os.path.join(bdir, "%s.%s" % (h, hh))
            objs = [obj, os.path.join(edir, "vsched.o"), os.path.join(edir, "vrt.o")]
            var = s["variant"]
            if s["vtbb"]:
                objs.append(os.path.join(edir, "vtbb-%s.o" % var))
                tdir = os.path.join(root, "tbb-" + var)
                objs += [os.path.join(tdir, f[:-4] + ".o") for f in sorted(VTBB_KEEP)]
            elif s["tbb"]:
                tdir = os.path.join(root, "tbb-" + var)
                objs += sorted(os.path.join(tdir, f) for f in os.listdir(tdir) if f.endswith(".o"))
            if s["malloc"]:
                mdir = os.path.join(root, "malloc-" + var)
                objs += sorted(os.path.join(mdir, f) for f in os.listdir(mdir) if f.endswith(".o"))
            ljobs.append(([CXX, "-rdynamic", "-pthread"] + objs + ["-ldl"], binp))
            out[h] = binp
        fails = compile_many(ljobs)
        if fails:
            raise BuildError("link failed:\n" + "\n".join(l for _, l in fails)[:6000])
        if verbose:
            print("build %s: %d objects checked in %.1fs" % (key, len(jobs) + len(ljobs), time.time() - t0))
        return out
    finally:
        fcntl.flock(lock, fcntl.LOCK_UN)
        lock.close()


def all_harnesses():
    return sorted(f[:-4] for f in os.listdir(os.path.join(VERIF, "harness")) if f.endswith(".cpp"))


if __name__ == "__main__":
    names = [a for a in sys.argv[1:] if not a.startswith("-")] or all_harnesses()
    try:
        res = build(names, verbose=True)
    except BuildError as e:
        print("BUILD-ERROR", e)
        sys.exit(2)
    for k, v in res.items():
        print(k, v)
