#!/usr/bin/env python3
"""Regenerates MANIFEST.json from tools/legs.py (claimed properties) and tools/manifest_meta.py."""
import json, os, sys
VERIF = os.path.dirname(os.path.dirname(os.path.abspath(__file__)))
sys.path.insert(0, os.path.join(VERIF, "tools"))
import legs as L
import manifest_meta as M
ALL = ["C%02d" % i for i in range(1, 21)]
checks = []
for p in ALL:
    if p not in L.PROPS or p in M.NOT_CLAIMED:
        continue
    meta = M.META.get(p, {})
    checks.append({
        "property_id": p,
        "quick_cmd": "python3 tools/check.py %s --tier quick" % p,
        "thorough_cmd": "python3 tools/check.py %s --tier thorough" % p,
        "evidence_file": "/verif/evidence/%s.json" % p,
        "replay_cmd_template": "python3 tools/check.py %s --replay {path}" % p,
        "engine": meta.get("engine", "vsched"),
        "level_claimed": {"category": "model_checking", "text": meta.get("text", L.PROPS[p].get("explanation", "")), "design_ref": meta.get("design_ref", "DESIGN.md section 7, " + p)},
        "level_note": meta.get("note", M.DEFAULT_NOTE),
        "technique": meta.get("technique", "stateless model checking: exhaustive deviation-bounded schedule enumeration of the real code under a controlled scheduler"),
    })
na = [{"property_id": p, "reason": M.NOT_CLAIMED.get(p, "check not built yet in this round; planned in DESIGN.md section 7")} for p in ALL if p not in [c["property_id"] for c in checks]]
man = {
    "version": 1,
    "setup_cmd": "python3 tools/build.py && python3 tools/selftest.py",
    "hooks": {"guard": "ONETBB_VERIF", "enable": "harness builds compile /repo sources with -DONETBB_VERIF=1 (tools/build.py); the stock CMake build never defines it",
              "baseline_off_cmd": "cmake --build /repo/_build && ctest --test-dir /repo/_build -j8 --timeout 900",
              "source_commits": M.HOOK_COMMITS, "add_only": True},
    "engines": M.ENGINES,
    "checks": checks,
    "notes": M.NOTES,
    "not_applicable": na,
}
json.dump(man, open(os.path.join(VERIF, "MANIFEST.json"), "w"), indent=1)
print("MANIFEST.json: %d checks, %d not claimed" % (len(checks), len(na)))
