#!/usr/bin/env python3
"""run_all.py [quick|thorough] [Cxx ...] - runs the registered checks one after the other and prints one line each."""
import json, os, subprocess, sys, time
VERIF = os.path.dirname(os.path.dirname(os.path.abspath(__file__)))
tier = sys.argv[1] if len(sys.argv) > 1 and sys.argv[1] in ("quick", "thorough") else "quick"
want = [a for a in sys.argv[1:] if a.startswith("C")]
man = json.load(open(os.path.join(VERIF, "MANIFEST.json")))
bad = 0
for c in man["checks"]:
    p = c["property_id"]
    if want and p not in want:
        continue
    t0 = time.time()
    r = subprocess.run(c["quick_cmd" if tier == "quick" else "thorough_cmd"], shell=True, cwd=VERIF, stdout=subprocess.PIPE, stderr=subprocess.STDOUT, text=True)
    lines = r.stdout.strip().splitlines()
    tail = [l for l in lines if l.startswith(("OK ", "VIOLATION", "ENGINE-ERROR", "KNOWN-FINDING"))]
    inexh = [l.split()[1] for l in lines if l.startswith("leg ") and "exhaustive=True" not in l]
    print("%s rc=%d %.0fs %s%s" % (p, r.returncode, time.time() - t0, " | ".join(t[:160] for t in tail), (" | not exhaustive: " + ",".join(inexh)) if inexh else ""))
    sys.stdout.flush()
    bad += r.returncode != 0
sys.exit(1 if bad else 0)
