#!/bin/bash
# try_seed.sh <dir with patch.diff> <Cxx> [quick|thorough] [check.py args...]
# Runs the registered check of property Cxx against a scratch worktree of /repo with the seeded change applied
# (VF_REPO points the build at it; /repo itself is not touched; evidence and replay files go to /var/tmp/vf-seedtest-out).
D=$(readlink -f "$1"); P=$2; T=${3:-quick}; shift 3
W=${VF_SEEDTEST:-/var/tmp/vf-seedtest}
[ -d $W ] || git -C /repo worktree add --detach $W HEAD >/dev/null 2>&1
cd $W && git checkout -q -- . && git checkout -q --detach $(git -C /repo rev-parse HEAD) || exit 2
git apply $D/patch.diff || { echo "patch does not apply"; exit 2; }
cd /verif
VF_REPO=$W VF_EVIDENCE_DIR=$W-out/evidence VF_OUT_DIR=$W-out/out python3 tools/check.py $P --tier $T "$@" 2>&1 | grep -v "^ENV" | grep -E "VIOLATION|violations=[1-9]|^  leg|^OK|ENGINE|KNOWN" | cut -c1-400
rc=${PIPESTATUS[0]}
cd $W && git checkout -q -- .
echo "try_seed $(basename $D) $P $T rc=$rc"
