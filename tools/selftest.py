#!/usr/bin/env python3
"""Engine self-test: toy programs with known verdicts (harness/t_selftest.cpp).  Exit 0 iff the explorer finds every planted
defect at the expected deviation bound and raises no alarm on the correct programs.  Run by tools/build.py (setup) and usable alone."""
import os, subprocess, sys
VERIF = os.path.dirname(os.path.dirname(os.path.abspath(__file__)))
sys.path.insert(0, os.path.join(VERIF, "tools"))
import build as B
CASES = [  # (harness, flags, kind, bound, expect_violation)
    ("t_selftest", [], "lost_update", 1, True), ("t_selftest", [], "atomic_update", 3, False), ("t_selftest", [], "lost_wakeup", 1, True),
    ("t_selftest", [], "dekker_relaxed", 3, False), ("t_selftest", [], "dekker_fenced", 3, False),
    ("t_selftest@tso", ["-tso"], "dekker_relaxed", 1, False), ("t_selftest@tso", ["-tso"], "dekker_relaxed", 2, True), ("t_selftest@tso", ["-tso"], "dekker_fenced", 3, False),
    ("t_selftest", ["-fp"], "lost_update", 1, True), ("t_selftest", ["-fp"], "atomic_update", 3, False),
]
def main():
    bins = B.build(sorted(set(c[0] for c in CASES)))
    bad = 0
    for h, flags, kind, bound, expect in CASES:
        r = subprocess.run([bins[h], "-b", str(bound), "-j", "4", "-deadline", "60", "-p", "kind=" + kind] + flags, stdout=subprocess.PIPE, stderr=subprocess.STDOUT, text=True, timeout=300)
        got = r.returncode == 1
        ok = (got == expect) and r.returncode in (0, 1)
        print("selftest %-16s %-6s bound=%d expect=%s got=%s %s" % (kind, " ".join(flags) or "sc", bound, "violation" if expect else "clean", "violation" if got else ("clean" if r.returncode == 0 else "rc=%d" % r.returncode), "ok" if ok else "FAILED"))
        bad += not ok
    return 1 if bad else 0
if __name__ == "__main__":
    sys.exit(main())
