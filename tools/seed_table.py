#!/usr/bin/env python3
"""seed_table.py - rewrites the table of seeded changes S10... in DESIGN.md (between the SEEDED-TABLE markers) from seeded/*/meta.json."""
import json, os, re, glob
V = os.path.dirname(os.path.dirname(os.path.abspath(__file__)))
rows = []
for d in sorted(glob.glob(os.path.join(V, "seeded", "S*"))):
    name = os.path.basename(d); num = int(re.match(r"S(\d+)", name).group(1))
    if num < 10 or not os.path.exists(os.path.join(d, "meta.json")):
        continue
    m = json.load(open(os.path.join(d, "meta.json")))
    title = m.get("breaks", "").splitlines()[0].lstrip("# ").strip() if m.get("breaks") else name
    title = re.sub(r"^C\d\d(r2)? / ", "", title)
    det = m.get("detected_by", "").replace("|", "/")
    note = m.get("note", "")
    rows.append("| S%02d | %s | %s | %s | %s%s |" % (num, m["property"], title.replace("|", "/")[:160], m.get("needs", "").replace("|", "/")[:220], det[:200], (" - " + note) if note else ""))
table = "\n".join(["| id | property | change | needs | caught by (quick tier) |", "|---|---|---|---|---|"] + rows)
p = os.path.join(V, "DESIGN.md"); s = open(p).read()
B, E = "<!-- SEEDED-TABLE-BEGIN -->", "<!-- SEEDED-TABLE-END -->"
if B not in s:
    s = s.replace("SEEDED-TABLE-CONTINUES", B + "\n" + E)
s = s[:s.index(B) + len(B)] + "\n" + table + "\n" + s[s.index(E):]
open(p, "w").write(s)
print("%d seeded changes in the table" % len(rows))
