#!/usr/bin/env python3
"""file_seeds.py <list file>
Each line of the list:  <Sxx-name> <candidate dir> <property> <needs text ...>
For every candidate whose confirm.log carries an OK verdict (tools/confirm_seed.sh) the registered quick check of the property is run
against the seeded change in the scratch tree (tools/try_seed.sh); the legs that report it are recorded in meta.json as detected_by
and the candidate (patch, demonstration, README, confirm.log) is filed under /verif/seeded/<Sxx-name>/."""
import json, os, re, shutil, subprocess, sys
V = os.path.dirname(os.path.dirname(os.path.abspath(__file__)))
rows = [l.rstrip("\n").split(None, 3) for l in open(sys.argv[1]) if l.strip() and not l.startswith("#")]
for name, cand, prop, needs in rows:
    dst = os.path.join(V, "seeded", name)
    if os.path.exists(os.path.join(dst, "meta.json")) and "--force" not in sys.argv:
        continue
    log = os.path.join(cand, "confirm.log")
    verdict = [l.strip() for l in open(log)] if os.path.exists(log) else []
    verdict = [l for l in verdict if l.startswith("VERDICT")]
    ok = False
    if verdict:
        m = re.search(r"clean_demo_failures=(\d)/3 patched_demo_failures=(\d)/3 build_rc=(\d+) stock_passed=(\d+) stock_failed_other_than_tcm=(\d+)", verdict[-1])
        ok = bool(m) and m.group(1) == "0" and m.group(2) == "3" and m.group(3) == "0" and int(m.group(4)) >= 134 and m.group(5) == "0"
    if not ok:
        print("%s: not confirmed (%s) - skipped" % (name, verdict[-1] if verdict else "no confirm.log"))
        continue
    r = subprocess.run([os.path.join(V, "tools", "try_seed.sh"), cand, prop, "quick"], stdout=subprocess.PIPE, stderr=subprocess.STDOUT, text=True)
    legs = re.findall(r"^leg (\S+)\s.*violations=[1-9]", r.stdout, re.M)
    msgs = re.findall(r"^  leg (\S+): (.*)$", r.stdout, re.M)
    caught = "rc=1" in r.stdout.splitlines()[-1] if r.stdout.strip() else False
    os.makedirs(dst, exist_ok=True)
    for f in os.listdir(cand):
        if f in ("patch.diff", "README.md", "confirm.log") or f.startswith("demo"):
            shutil.copy(os.path.join(cand, f), os.path.join(dst, f))
    readme = open(os.path.join(cand, "README.md")).read() if os.path.exists(os.path.join(cand, "README.md")) else ""
    meta = {"property": prop,
            "origin": "written by an independent sub-agent that saw only the property text and a scratch worktree (nothing from /verif)" if "reverse of" not in needs else "reverse patch of a fix: commit in /repo",
            "breaks": readme.split("\n\n")[0][:600],
            "needs": needs,
            "detected_by": ("%s quick: legs %s" % (prop, ", ".join(legs[:8]))) if caught else "NOT DETECTED by the quick tier",
            "first_message": (msgs[0][1][:300] if msgs else ""),
            "confirmed": verdict[-1],
            "ran": ["tools/confirm_seed.sh <dir>  (scratch worktree /var/tmp/vf-conf: demo on clean tree x3, apply patch, full stock build + ctest, demo on patched tree x3, restore)",
                    "tools/try_seed.sh seeded/%s %s quick  (scratch worktree /var/tmp/vf-seedtest with the patch applied, VF_REPO pointing at it; equivalent to: git -C /repo apply patch.diff; python3 tools/check.py %s --tier quick; git -C /repo checkout -- .)" % (name, prop, prop)]}
    json.dump(meta, open(os.path.join(dst, "meta.json"), "w"), indent=1)
    print("%s: filed, %s" % (name, meta["detected_by"]))
