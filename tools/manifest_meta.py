HOOK_COMMITS = ["e0f1d1a", "439b2f2", "3e18b75"]
DEFAULT_NOTE = ("trusted base: the vsched runtime (engine/vsched.cpp, engine/vrt.cpp), clang's -fsanitize=thread atomic instrumentation used only to "
                "turn every std::atomic operation into a scheduling point, the harness oracle; bounded: thread count, program, deviation bound per leg (evidence lists them)")
ENGINES = [
    {"name": "vsched", "path": "engine/vsched.cpp, engine/vrt.cpp", "serves_properties": [],
     "kind_free_text": "cooperative token-passing scheduler over the real oneTBB code; every std::atomic/futex/pthread op is a scheduling point; forking, cost-ordered, deviation-bounded exhaustive explorer with HB-fingerprint pruning, optional HB vector-clock oracle and TSO store buffers"},
]
NOTES = "One CLI: python3 tools/check.py Cxx --tier quick|thorough [--replay FILE]. Exit 0 held / 1 VIOLATION / 2 ENGINE-ERROR. See DESIGN.md."
NOT_CLAIMED = {}
META = {}
