#!/bin/bash
# confirm_seed.sh <dir with patch.diff and demo.cpp> [extra demo compile flags...]
# Confirms a seeded change in the scratch worktree /var/tmp/vf-conf (never in /repo): the demonstration passes on the clean tree,
# the patched tree builds, the full stock suite still passes, the demonstration fails; then restores the clean tree.
# Writes <dir>/confirm.log and prints a one-line verdict.
D=$(readlink -f "$1"); shift; EXTRA="$@"
W=${VF_CONF:-/var/tmp/vf-conf}; L=$W/_b/gnu_12.2_cxx11_64_relwithdebinfo; LOG=$D/confirm.log
cd $W || exit 2
[ -f $LOG ] && [ -z "$VF_CONF_FORCE" ] && { echo "CONFIRM $D: already confirmed or in progress elsewhere (confirm.log exists) - skipped"; exit 0; }
git checkout -q -- . ; git checkout -q --detach $(git -C /repo rev-parse HEAD) 2>/dev/null
{ echo "== $(date) confirm $D at $(git rev-parse --short HEAD)"; } > $LOG
nice cmake --build _b -j12 >> $LOG 2>&1 || { echo "CONFIRM $D: clean build failed"; exit 2; }
demo() { g++ -std=c++17 -O1 -pthread -I$W/include $EXTRA $D/demo.cpp -o $W-demo -L$L -ltbb -ltbbmalloc -Wl,-rpath,$L >> $LOG 2>&1 || { echo "demo build failed" >> $LOG; return 99; }; local bad=0; for i in 1 2 3; do timeout 300 $W-demo >> $LOG 2>&1; rc=$?; echo "demo run $i rc=$rc" >> $LOG; [ $rc -ne 0 ] && bad=$((bad+1)); done; return $bad; }
echo "-- demo on the clean tree" >> $LOG; demo; CLEAN_BAD=$?
git apply $D/patch.diff >> $LOG 2>&1 || { echo "CONFIRM $D: patch does not apply"; exit 2; }
nice cmake --build _b -j12 >> $LOG 2>&1; BUILD=$?
echo "-- ctest with the patch (build rc=$BUILD)" >> $LOG
nice ctest --test-dir _b -j8 --timeout 900 > $D/ctest.out 2>&1; tail -8 $D/ctest.out >> $LOG
FAILED=$(grep -E "^\s+[0-9]+ - " $D/ctest.out | grep -v "test_tcm_" | wc -l); PASSED=$(grep -c "   Passed" $D/ctest.out)
if [ $FAILED -gt 0 ]; then   # a loaded machine makes long tests time out: the failed ones are run once more, two at a time, with a longer limit
  echo "-- re-running the failed tests: $(grep -E "^\s+[0-9]+ - " $D/ctest.out | grep -v test_tcm_ | tr -s ' ' | tr '\n' ';')" >> $LOG
  nice ctest --test-dir _b --rerun-failed -j2 --timeout 2400 > $D/ctest2.out 2>&1; tail -8 $D/ctest2.out >> $LOG
  F2=$(grep -E "^\s+[0-9]+ - " $D/ctest2.out | grep -v "test_tcm_" | wc -l); P2=$(grep -c "   Passed" $D/ctest2.out); PASSED=$((PASSED+P2)); FAILED=$F2; rm -f $D/ctest2.out
fi
rm -f $D/ctest.out
echo "-- demo on the patched tree" >> $LOG; demo; PATCH_BAD=$?
git checkout -q -- . ; nice cmake --build _b -j12 >> $LOG 2>&1
V="clean_demo_failures=$CLEAN_BAD/3 patched_demo_failures=$PATCH_BAD/3 build_rc=$BUILD stock_passed=$PASSED stock_failed_other_than_tcm=$FAILED"
echo "VERDICT $V" >> $LOG
if [ $CLEAN_BAD -eq 0 ] && [ $PATCH_BAD -eq 3 ] && [ $BUILD -eq 0 ] && [ $FAILED -eq 0 ] && [ $PASSED -ge 134 ]; then echo "CONFIRM $D: OK $V"; else echo "CONFIRM $D: NOT-OK $V"; fi
