#!/usr/bin/env python3
"""check.py Cxx --tier quick|thorough [--replay FILE]

Builds the harnesses of property Cxx from /repo's current working tree, runs every exploration leg of the tier,
writes /verif/evidence/Cxx.json and prints
    VIOLATION property=Cxx replay=<path>       (exit 1)  for a violation that reproduced on replay,
    KNOWN-FINDING: property=Cxx <what fails>   (exit 0)  for findings listed in /verif/known_findings.txt,
    ENGINE-ERROR ...                           (exit 2)  for infrastructure trouble.
DESIGN.md section 10.
"""
import argparse, json, os, subprocess, sys, time, shlex

VERIF = os.path.dirname(os.path.dirname(os.path.abspath(__file__)))
sys.path.insert(0, os.path.join(VERIF, "tools"))
import build as B
import legs as L

BUDGET = {"quick": 100.0, "thorough": 780.0}


def load_known(prop):
    """known: property=Cxx leg=<tag-prefix or *> match=<substring> :: description"""
    out = []
    p = os.path.join(VERIF, "known_findings.txt")
    if not os.path.exists(p):
        return out
    for line in open(p):
        line = line.strip()
        if not line.startswith("known:"):
            continue
        head, _, desc = line[6:].partition("::")
        kv = {}
        for tok in shlex.split(head):
            if "=" in tok:
                k, v = tok.split("=", 1)
                kv[k] = v
        if kv.get("property") == prop:
            out.append({"leg": kv.get("leg", "*"), "match": kv.get("match", ""), "desc": desc.strip()})
    return out


def run_leg(prop, leg, tier, binp, deadline_s, known, seed):
    """A leg with a "sweep" list (parameter sets generated in legs.py, e.g. every thread program over an alphabet) runs the
    harness once per parameter set - each one explored exhaustively within the bound - and reports the sums."""
    if not leg.get("sweep"):
        return run_one(prop, leg, leg["name"], leg.get("params", {}), tier, binp, deadline_s, known, seed)
    sw = leg["sweep"]
    t0 = time.time()
    agg = {"executions": 0, "states": 0, "transitions": 0, "pruned": 0, "choice_points": 0, "horizon_unresolved": 0, "violations": 0, "known": 0,
           "distinct_outcomes": 0, "distinct_conflict_outcomes": 0, "exhaustive": True, "completed_bound": None, "violation_msgs": [], "known_msgs": {},
           "samples": [], "replay": "", "engine_error": False, "engine_msg": "", "programs": len(sw), "programs_run": 0, "programs_exhaustive": 0}
    rc, out, cmd0 = 0, "", ""
    import concurrent.futures as cf
    par = int(leg.get("sweep_par", 4)); jobs = max(1, 16 // par)
    state = {"stop": False}

    def one(i):
        left = deadline_s - (time.time() - t0)
        if state["stop"]:
            return i, None
        p = dict(leg.get("params", {})); p.update(sw[i])
        # fair share of what is left for the items not yet started, times a generous factor; small explorations finish far earlier.  No
        # parameter set is skipped when the time is used up: it then runs with a token deadline and the engine's minimal exploration
        # (deviation bound 1 or 300 executions) still happens
        share = max(0.5, min(max(left, 0.5), 8.0 * max(left, 0.0) * par / max(1, len(sw) - i)))
        return i, run_one(prop, leg, "%s-%03d" % (leg["name"], i), p, tier, binp, share, known, seed, jobs)

    with cf.ThreadPoolExecutor(max_workers=par) as ex:
        for i, r in ex.map(one, range(len(sw))):
            prm = sw[i]
            if r is None:
                agg["exhaustive"] = False
                continue
            cmd0 = cmd0 or r["cmd"]
            res = r["res"]
            if res is None or r["rc"] == 2 or res.get("engine_error"):
                if not agg["engine_error"]:
                    agg["engine_error"] = True; agg["engine_msg"] = "sweep item %d %s: %s" % (i, prm, (res or {}).get("engine_msg") or r["out"][-800:]); rc = 2
                state["stop"] = True
                continue
            agg["programs_run"] += 1
            agg["programs_exhaustive"] += 1 if res.get("exhaustive") else 0
            for k in ("executions", "states", "transitions", "pruned", "choice_points", "horizon_unresolved", "violations", "known", "distinct_outcomes", "distinct_conflict_outcomes"):
                agg[k] += int(res.get(k) or 0)
            agg["exhaustive"] = agg["exhaustive"] and bool(res.get("exhaustive"))
            cb = res.get("completed_bound")
            agg["completed_bound"] = cb if agg["completed_bound"] is None else min(agg["completed_bound"], cb if cb is not None else -1)
            for k, n in (res.get("known_msgs") or {}).items():
                agg["known_msgs"][k] = agg["known_msgs"].get(k, 0) + n
            if len(agg["samples"]) < 2 and res.get("samples"):
                smp = dict(res["samples"][0]); smp["params"] = prm; agg["samples"].append(smp)
            if res.get("violations", 0) > 0 or r["rc"] == 1:
                rc = 1 if rc == 0 else rc
                agg["violation_msgs"] += ["[%s] %s" % (" ".join("%s=%s" % kv for kv in prm.items()), m) for m in res.get("violation_msgs", [])[:2]]
                if not agg["replay"]:
                    agg["replay"] = res.get("replay", "")
                state["stop"] = True
    return {"leg": leg, "rc": rc, "out": out, "res": agg, "wall": time.time() - t0, "cmd": cmd0 + "   (x %d parameter sets)" % len(sw), "bound": leg["bound"][0 if tier == "quick" else 1]}


def run_one(prop, leg, name, params, tier, binp, deadline_s, known, seed, jobs=None):
    tag = "%s-%s" % (prop, name)
    outdir = os.environ.get("VF_OUT_DIR") or os.path.join(VERIF, "out")
    os.makedirs(os.path.join(outdir, "replays"), exist_ok=True)
    os.makedirs(os.path.join(outdir, "json"), exist_ok=True)
    js = os.path.join(outdir, "json", tag + ".json")
    if os.path.exists(js):
        os.remove(js)
    bound = leg["bound"][0 if tier == "quick" else 1]
    cmd = [binp, "-b", str(bound), "-tag", tag, "-json", js, "-replaydir", os.path.join(outdir, "replays"),
           "-deadline", "%.1f" % deadline_s, "-j", str(jobs or leg.get("jobs", 16))]
    for f in leg.get("flags", []):
        cmd.append(f)
    if tier == "thorough":
        for f in leg.get("flags_thorough", []):
            cmd.append(f)
    for k, v in params.items():
        cmd += ["-p", "%s=%s" % (k, v)]
    for k in known:
        if k["leg"] == "*" or leg["name"].startswith(k["leg"]):
            cmd += ["-known", k["match"]]
    t0 = time.time()
    try:
        r = subprocess.run(cmd, stdout=subprocess.PIPE, stderr=subprocess.STDOUT, text=True, timeout=deadline_s + 400)
        rc, out = r.returncode, r.stdout
    except subprocess.TimeoutExpired as e:
        subprocess.run(["pkill", "-9", "-f", os.path.basename(binp)])
        rc, out = 2, "ENGINE-ERROR leg exceeded its hard time limit\n" + (e.stdout or "")
    res = None
    if os.path.exists(js):
        try:
            res = json.load(open(js))
        except Exception as e:
            out += "\n(bad json: %s)" % e
    return {"leg": leg, "rc": rc, "out": out, "res": res, "wall": time.time() - t0, "cmd": " ".join(shlex.quote(c) for c in cmd), "bound": bound}


def replay(prop, path):
    kv = {}
    for line in open(path):
        if "=" in line and not line.startswith("#"):
            k, v = line.rstrip("\n").split("=", 1)
            kv[k] = v
    h = kv.get("harness")
    if not h:
        print("ENGINE-ERROR replay file has no harness= line")
        return 2
    try:
        bins = B.build([h])
    except B.BuildError as e:
        print("ENGINE-ERROR build failed\n%s" % e)
        return 2
    cmd = [bins[h]] + shlex.split(kv.get("args", "")) + ["-r", kv.get("schedule", "")]
    print("replaying:", " ".join(cmd))
    r = subprocess.run(cmd, stdout=subprocess.PIPE, stderr=subprocess.STDOUT, text=True)
    print(r.stdout)
    if r.returncode == 1:
        print("VIOLATION property=%s replay=%s" % (prop, path))
        return 1
    return 0 if r.returncode == 0 else 2


def env_probe(tag):
    """One line about the machine the check runs on (host steal time, pressure, cost of touching fresh memory): a slow or
    oversubscribed host explains a leg that stops at its deadline with exhaustive=false."""
    try:
        import mmap
        la = open("/proc/loadavg").read().split()[:3]
        st = open("/proc/stat").readline().split()
        tot = sum(int(x) for x in st[1:9]); steal = int(st[8])
        psi = ""
        for k in ("cpu", "memory", "io"):
            try:
                psi += " psi_%s=%s" % (k, open("/proc/pressure/" + k).readline().split()[1])
            except Exception:
                pass
        t0 = time.time(); m = mmap.mmap(-1, 32 << 20)
        for o in range(0, 32 << 20, 4096):
            m[o] = 1
        dt = time.time() - t0; m.close()
        print("ENV %s loadavg=%s steal_ticks=%d/%d%s touch32MB=%.3fs" % (tag, "/".join(la), steal, tot, psi, dt))
    except Exception as e:
        print("ENV %s probe failed: %s" % (tag, e))


def main():
    ap = argparse.ArgumentParser()
    ap.add_argument("prop")
    ap.add_argument("--tier", default=os.environ.get("VERIF_TIER", "quick"), choices=["quick", "thorough"])
    ap.add_argument("--replay")
    ap.add_argument("--only", help="run only legs whose name starts with this")
    ap.add_argument("--budget", type=float)
    a = ap.parse_args()
    prop = a.prop
    seed = int(os.environ.get("VERIF_SEED", "0") or 0)
    if a.replay:
        sys.exit(replay(prop, a.replay))
    if prop not in L.PROPS:
        print("ENGINE-ERROR unknown property", prop)
        sys.exit(2)
    P = L.PROPS[prop]
    legs = [l for l in P["legs"] if (a.tier in l.get("tiers", ("quick", "thorough")))]
    if a.only:
        legs = [l for l in legs if l["name"].startswith(a.only)]
    t_start = time.time()
    try:
        bins = B.build(sorted(set(l["harness"] for l in legs)))
    except B.BuildError as e:
        print("ENGINE-ERROR build failed\n%s" % e)
        sys.exit(2)
    t_build = time.time() - t_start
    env_probe("start")
    known = load_known(prop)
    budget = a.budget or P.get("budget", {}).get(a.tier) or BUDGET[a.tier]
    results = []
    weights = [l.get("weight", 1.0) for l in legs]
    for i, leg in enumerate(legs):
        remaining = budget - (time.time() - t_start - t_build)
        fair = remaining * weights[i] / sum(weights[i:])
        share = max(1.0, min(remaining - 1.0 * (len(legs) - i - 1), 5.0 * fair))
        try:
            os.utime(os.path.dirname(os.path.dirname(bins[leg["harness"]])), None)   # keeps the build tree of a running check out of the garbage collection of concurrent builds
        except OSError:
            pass
        r = run_leg(prop, leg, a.tier, bins[leg["harness"]], share, known, seed)
        results.append(r)
        res = r["res"] or {}
        print("leg %-28s bound=%s completed=%s exhaustive=%s executions=%s states=%s outcomes=%s violations=%s known=%s wall=%.1fs" % (
            leg["name"], r["bound"], res.get("completed_bound"), res.get("exhaustive"), res.get("executions"), res.get("states"),
            res.get("distinct_outcomes"), res.get("violations"), res.get("known"), r["wall"]))
        sys.stdout.flush()
    # ---- verdict
    violations, engine_errors, known_hits = [], [], {}
    for r in results:
        res = r["res"]
        if res is None or r["rc"] == 2 or (res and res.get("engine_error")):
            engine_errors.append((r["leg"]["name"], (res or {}).get("engine_msg") or r["out"][-1500:]))
            continue
        if res.get("violations", 0) > 0 or r["rc"] == 1:
            rp = res.get("replay", "")
            if rp and os.path.exists(rp):
                with open(rp, "a") as f:
                    f.write("harness=%s\nproperty=%s\nleg=%s\n" % (r["leg"]["harness"], prop, r["leg"]["name"]))
            violations.append((r["leg"]["name"], res.get("violation_msgs", []), rp))
        for k, n in (res.get("known_msgs") or {}).items():
            known_hits[k] = known_hits.get(k, 0) + n
    # ---- evidence
    tot = lambda key: sum(int((r["res"] or {}).get(key, 0) or 0) for r in results)
    samples = []
    for r in results:
        for s in (r["res"] or {}).get("samples", [])[:2]:
            samples.append({"leg": r["leg"]["name"], "case": s})
    ev = {
        "property_id": prop, "tier": a.tier, "seed": seed, "level": "model_checking",
        "coverage": {
            "states": max(1, tot("states")), "transitions": max(1, tot("transitions")),
            "traces_validated_against_impl": tot("executions"),
            "evaluations": max(1, tot("executions")), "distinct_nontrivial": sum(int((r["res"] or {}).get("distinct_conflict_outcomes") or (r["res"] or {}).get("distinct_outcomes") or 0) for r in results),
            "rule": P.get("rule", "every schedule of each leg's closed harness within the deviation bound (cost model: DESIGN.md section 4) "
                                  "is executed on the real oneTBB code; an execution is non-trivial if two threads touched one address with at least one write "
                                  "(or, for single-threaded legs, if it produced a distinct observable outcome); distinct = distinct outcome strings among those"),
            "samples": samples[:12] or [{"note": "no execution completed"}],
            "exhaustive": all(bool((r["res"] or {}).get("exhaustive")) for r in results) and not engine_errors,
            "pruned_by_hb_fingerprint": tot("pruned"), "choice_points": tot("choice_points"),
            "horizon_unresolved": tot("horizon_unresolved"),
            "legs": [{"name": r["leg"]["name"], "harness": r["leg"]["harness"], "what": r["leg"].get("what", ""), "params": r["leg"].get("params", {}),
                      "flags": r["leg"].get("flags", []) + (r["leg"].get("flags_thorough", []) if a.tier == "thorough" else []),
                      "deviation_bound": r["bound"], "bound_completed": (r["res"] or {}).get("completed_bound"),
                      "exhaustive_within_bound": (r["res"] or {}).get("exhaustive"), "executions": (r["res"] or {}).get("executions"),
                      "states": (r["res"] or {}).get("states"), "transitions": (r["res"] or {}).get("transitions"),
                      "distinct_outcomes": (r["res"] or {}).get("distinct_outcomes"), "violations": (r["res"] or {}).get("violations"),
                      "known_findings_hit": (r["res"] or {}).get("known"), "wall_s": round(r["wall"], 2),
                      **({"parameter_sets": (r["res"] or {}).get("programs"), "parameter_sets_explored": (r["res"] or {}).get("programs_run"),
                          "parameter_sets_exhaustive": (r["res"] or {}).get("programs_exhaustive"), "sweep": r["leg"].get("sweep_what", "")} if r["leg"].get("sweep") else {})} for r in results],
            "explanation": P.get("explanation", ""),
        },
        "assumptions": P.get("assumptions", []) + L.COMMON_ASSUMPTIONS,
        "wall_s": round(time.time() - t_start, 2), "violations": len(violations),
        "build_s": round(t_build, 2),
    }
    evdir = os.environ.get("VF_EVIDENCE_DIR") or os.path.join(VERIF, "evidence")   # redirected only when trying seeded changes in a scratch tree
    os.makedirs(evdir, exist_ok=True)
    with open(os.path.join(evdir, prop + ".json"), "w") as f:
        json.dump(ev, f, indent=1)
    env_probe("end")
    for k in known:
        if known_hits.get(k["match"], 0) > 0:
            print("KNOWN-FINDING: property=%s %s (seen in %d executions)" % (prop, k["desc"], known_hits[k["match"]]))
    if engine_errors:
        for n, m in engine_errors:
            print("ENGINE-ERROR leg=%s %s" % (n, m))
    for n, msgs, rp in violations:
        for m in msgs[:2]:
            print("  leg %s: %s" % (n, m))
        print("VIOLATION property=%s replay=%s" % (prop, rp))
    if violations:
        sys.exit(1)
    if engine_errors:
        sys.exit(2)
    print("OK property=%s tier=%s legs=%d executions=%d exhaustive=%s wall=%.1fs" % (prop, a.tier, len(results), tot("executions"), ev["coverage"]["exhaustive"], time.time() - t_start))
    sys.exit(0)


if __name__ == "__main__":
    main()
