#!/usr/bin/env python3
"""Differential check of the HB-fingerprint pruning (DESIGN section 4): every leg that lists -fp is run at its quick bound
with and without pruning; the set of distinct outcomes and the verdict must be identical.  usage: fpdiff.py C08 [C09 ...]"""
import json, os, subprocess, sys
VERIF = os.path.dirname(os.path.dirname(os.path.abspath(__file__)))
sys.path.insert(0, os.path.join(VERIF, "tools"))
import build as B, legs as L
bad = 0
for prop in sys.argv[1:]:
    legs = [l for l in L.PROPS[prop]["legs"] if "-fp" in l["flags"]]
    bins = B.build(sorted(set(l["harness"] for l in legs)))
    for l in legs:
        res = []
        for fp in (True, False):
            js = "/tmp/fpdiff-%d.json" % os.getpid()
            cmd = [bins[l["harness"]], "-b", str(l["bound"][0]), "-json", js, "-tag", "fpdiff", "-replaydir", "/tmp", "-deadline", "600"] + [f for f in l["flags"] if f != "-fp" or fp]
            for k, v in l["params"].items(): cmd += ["-p", "%s=%s" % (k, v)]
            subprocess.run(cmd, stdout=subprocess.DEVNULL, stderr=subprocess.DEVNULL)
            res.append(json.load(open(js))); os.remove(js)
        a, b = res
        same = a["outcome_set_hash"] == b["outcome_set_hash"] and a["violations"] == b["violations"] and a["distinct_outcomes"] == b["distinct_outcomes"] and a["exhaustive"] and b["exhaustive"]
        print("%s %-22s fp: %7d exec %4d outcomes | nofp: %8d exec %4d outcomes | %s" % (prop, l["name"], a["executions"], a["distinct_outcomes"], b["executions"], b["distinct_outcomes"], "same" if same else "DIFFERENT"))
        sys.stdout.flush()
        if not same: bad += 1
print("fpdiff: %d legs differ" % bad)
sys.exit(1 if bad else 0)
