#!/usr/bin/env python3
"""add_seed.py <Sxx-name> <candidate dir> <property> <detected_by> <needs> : files a confirmed seeded change under /verif/seeded/."""
import json, os, shutil, sys
name, cand, prop, detected, needs = sys.argv[1:6]
extra = sys.argv[6] if len(sys.argv) > 6 else ""
V = os.path.dirname(os.path.dirname(os.path.abspath(__file__)))
d = os.path.join(V, "seeded", name); os.makedirs(d, exist_ok=True)
for f in os.listdir(cand):
    if f in ("patch.diff", "README.md", "confirm.log") or f.startswith("demo"):
        shutil.copy(os.path.join(cand, f), os.path.join(d, f))
verdict = [l.strip() for l in open(os.path.join(cand, "confirm.log")) if l.startswith("VERDICT")]
meta = {"property": prop, "origin": "written by an independent sub-agent that saw only the property text and a scratch worktree (nothing from /verif)",
        "breaks": open(os.path.join(cand, "README.md")).read().split("\n\n")[0][:600] if os.path.exists(os.path.join(cand, "README.md")) else "",
        "needs": needs, "detected_by": detected, "confirmed": verdict[-1] if verdict else "not run",
        "ran": ["tools/confirm_seed.sh <dir>  (scratch worktree /var/tmp/vf-conf: demo on clean tree x3, apply patch, full stock build + ctest, demo on patched tree x3, restore)",
                "git -C /repo apply seeded/%s/patch.diff; python3 tools/check.py %s --tier quick; git -C /repo checkout -- ." % (name, prop)]}
if extra:
    meta["note"] = extra
json.dump(meta, open(os.path.join(d, "meta.json"), "w"), indent=1)
print("seeded/%s written" % name)
