"""Exploration legs per property.  Each leg = one closed harness + parameters + (quick, thorough) deviation bound.
flags: -fp (HB-fingerprint pruning, enabled only after the differential check of DESIGN section 4), -hb (happens-before
oracle on announced payload), -tso (store buffers; variant=tso harness builds), -spurious."""

COMMON_ASSUMPTIONS = [
    "scheduling points are all std::atomic operations, futex/pthread/yield calls and harness markers; plain accesses are assumed ordered by them (payload checked separately by the happens-before oracle where -hb is listed)",
    "sequentially consistent execution of atomics unless the leg lists -tso (x86-TSO: a non-seq_cst atomic store may stay in a per-thread FIFO buffer at one deviation, a forced drain is a scheduling point; plain stores are not buffered); weaker hardware models are not simulated",
    "exhaustive only within each leg's thread count, program, and deviation bound; executions run to completion",
    "oneTBB internal assertions are compiled out (shipped configuration); hooks H1-H3 (ONETBB_VERIF) replace pause/rdtsc loops by yield points",
]


def leg(name, harness, bound, params=None, flags=("-fp",), what="", tiers=("quick", "thorough"), weight=1.0, flags_thorough=()):
    return {"name": name, "harness": harness, "bound": bound, "params": params or {}, "flags": list(flags), "what": what,
            "tiers": tiers, "weight": weight, "flags_thorough": list(flags_thorough)}


PROPS = {}

# ------------------------------------------------------------------------------------------------ program sweeps
import itertools


def sweep(name, harness, bound, sw, params=None, flags=("-fp",), what="", tiers=("thorough",), weight=1.0, par=4):
    """One leg = the same harness run once per parameter set of `sw` (each explored exhaustively within the bound)."""
    l = leg(name, harness, bound, params, flags, what + " [%d parameter sets]" % len(sw), tiers, weight)
    l["sweep"] = sw; l["sweep_par"] = par; l["sweep_what"] = what
    return l


def seqs(alpha, maxlen, minlen=1):
    out = []
    for n in range(minlen, maxlen + 1):
        out += [list(t) for t in itertools.product(alpha, repeat=n)]
    return out


def thread_programs(alpha, nthreads, maxlen, keep=None, minlen=1, ordered=False):
    """All assignments of operation sequences (length minlen..maxlen over alpha) to nthreads threads; threads are symmetric, so
    multisets of sequences (combinations with replacement) unless ordered."""
    sq = seqs(alpha, maxlen, minlen)
    it = itertools.product(sq, repeat=nthreads) if ordered else itertools.combinations_with_replacement(sq, nthreads)
    return [list(c) for c in it if keep is None or keep(c)]


def prog_str(threads, number=(), values=None):
    """threads: list of lists of op strings; ops whose letter is in `number` get a unique value appended (P -> P11, P12, ... or the
    next element of `values`)."""
    out = []; n = 10; vi = 0
    for t in threads:
        ops = []
        for o in t:
            if o in number:
                n += 1
                if values:
                    ops.append("%s%d" % (o, values[vi % len(values)])); vi += 1
                else:
                    ops.append("%s%d" % (o, n))
            else:
                ops.append(o)
        out.append(",".join(ops))
    return "|".join(out)


def bq_completes(threads, cap, keep=0, fails=0):
    """Reference model of a bounded queue with blocking push 'P' / blocking pop 'Q' / try ops: True if EVERY interleaving of the
    atomic operations runs to completion (no thread blocked forever), so that a deadlock of the real queue is a violation."""
    import functools
    T = tuple(tuple(t) for t in threads)

    @functools.lru_cache(maxsize=None)
    def ok(pcs, size, fl=fails):
        if all(pcs[i] == len(T[i]) for i in range(len(T))):
            return True
        moved = False
        for i in range(len(T)):
            if pcs[i] == len(T[i]):
                continue
            o = T[i][pcs[i]][0]; ns = size
            if o == "P":
                if size >= cap:
                    continue
                ns = size + 1
            elif o == "Q":
                if size <= 0:
                    continue
                ns = size - 1
            elif o == "T":
                ns = size + 1 if size < cap else size
            elif o == "G":
                ns = size - 1 if size > 0 else size
            moved = True
            if not ok(pcs[:i] + (pcs[i] + 1,) + pcs[i + 1:], ns, fl):
                return False
            if fl > 0 and ns == size + 1 and not ok(pcs[:i] + (pcs[i] + 1,) + pcs[i + 1:], size, fl - 1):   # this push throws: no item
                return False
        return moved
    return ok(tuple(0 for _ in T), keep, fails)


# ------------------------------------------------------------------------------------------------ C09
def _c09_sweeps():
    num = ("P", "T")
    q32 = [{"prog": prog_str(t, num)} for t in thread_programs(["P", "G"], 3, 2)]
    q23 = [{"prog": prog_str(t, num)} for t in thread_programs(["P", "G"], 2, 3)]
    bq22 = [{"prog": prog_str(t, num), "cap": 1} for t in thread_programs(["P", "Q", "T", "G"], 2, 2) if bq_completes(t, 1)]
    bq32 = [{"prog": prog_str(t, num), "cap": c} for c in (1, 2) for t in thread_programs(["P", "Q", "T", "G"], 3, 2) if bq_completes(t, c)]
    bq31k = [{"prog": prog_str(t, num), "cap": 2, "keep": 1} for t in thread_programs(["P", "Q", "T", "G"], 3, 2) if bq_completes(t, 2, 1)]
    npush = lambda c: sum(o in ("P", "T") for th in c for o in th)
    bqthr = [{"prog": prog_str(t, num), "cap": 2, "throwat": k} for t in thread_programs(["P", "Q", "T", "G"], 3, 2, keep=lambda c: npush(c) >= 2 and any(o == "Q" for th in c for o in th)) if bq_completes(t, 2, 0, 1) for k in (1, 2)]
    bqthr2 = [{"prog": prog_str(t, num), "cap": 2, "throwat": k} for t in thread_programs(["P", "Q", "T", "G"], 2, 2, keep=lambda c: npush(c) >= 2 and any(o == "Q" for th in c for o in th)) if bq_completes(t, 2, 0, 1) for k in (1, 2)]
    bqthr1 = [{"prog": prog_str(t, num), "cap": 1, "throwat": 1} for t in thread_programs(["P", "Q", "T", "G"], 2, 2, keep=lambda c: npush(c) >= 2) if bq_completes(t, 1, 0, 1)]
    qthr = [{"prog": prog_str(t, num), "throwat": k, "big": b} for b in (0, 1) for t in thread_programs(["P", "G"], 3, 2, keep=lambda c: npush(c) >= 2) for k in (1, 2)]
    qaf = [{"prog": prog_str(t, num), "allocfail": k} for t in thread_programs(["P", "G"], 3, 2, keep=lambda c: npush(c) >= 1) for k in (1, 2) if k <= npush(t)]
    bqaf = [{"prog": prog_str(t, num), "allocfail": k, "cap": 4} for t in thread_programs(["P", "Q", "T", "G"], 2, 2, keep=lambda c: npush(c) >= 2) if bq_completes(t, 4, 0, 1) for k in (1, 2)]
    longp = ",".join("P%d" % (100 + i) for i in range(36))
    mixp = ",".join(("P%d" % (100 + i)) + (",G" if i % 3 == 2 else "") for i in range(36))
    qafl = [{"prog": p, "allocfail": k, "pre": pre, "bounded": b, "cap": 64} for p in (longp, mixp) for b in (0, 1) for pre in (0, 3) for k in range(1, 13)]
    return [
        sweep("sweep-allocfail-long", "c09_queue", (0, 0), qafl, what="one thread, 36 pushes (plain, and with a try_pop after every third) then a drain, one element per page, the 1st .. 12th page allocation throws: the dead lane is met again every 8 tickets, pushes into it throw, pops must pass over every one of its tickets; both queue classes, tickets starting at 0 and 3", tiers=("quick", "thorough")),
        sweep("sweep-q-allocfail", "c09_queue", (1, 2), qaf, what="concurrent_queue with one element per page: the first / second page allocation inside the window throws std::bad_alloc (the lane is invalidated: the failing push and later pushes into that lane throw, pops must pass over their tickets)", tiers=("quick", "thorough")),
        sweep("sweep-bq-allocfail", "c09_queue", (1, 2), bqaf, {"bounded": 1}, what="concurrent_bounded_queue (capacity 4): page allocation failure with blocking pops"),
        sweep("sweep-bq-throw-2x2", "c09_queue", (2, 3), bqthr2, {"bounded": 1}, what="capacity 2, two threads, programs with a blocking pop and at least two pushes that cannot block forever even if one push fails; the first / second element copy throws (a blocked pop must be woken by the next successful push)", tiers=("quick", "thorough")),
        sweep("sweep-bq-throw-3x2", "c09_queue", (1, 2), bqthr, {"bounded": 1}, what="same with three threads", weight=2.0),
        sweep("sweep-bq-throw-cap1", "c09_queue", (1, 2), bqthr1, {"bounded": 1}, what="capacity 1, two threads, every pair of sequences with at least two pushes, the first element copy throws; executions that the recorded finding (invalid entry counts against the capacity) explains are reported as KNOWN-FINDING, anything else as a violation", tiers=("quick", "thorough")),
        sweep("sweep-q-throw", "c09_queue", (1, 2), qthr, what="concurrent_queue: programs with at least two pushes; the first / second element copy throws; small and page-sized elements"),
        sweep("sweep-q-3x2", "c09_queue", (1, 2), q32, what="concurrent_queue: every assignment of push/try_pop sequences of length 1-2 to three threads", tiers=("quick", "thorough")),
        sweep("sweep-q-2x3", "c09_queue", (2, 3), q23, what="concurrent_queue: every pair of push/try_pop sequences of length 1-3"),
        sweep("sweep-q-3x2-page", "c09_queue", (1, 2), q32, {"pre": 254, "keep": 1}, what="same programs with the tickets at a page boundary and one item queued"),
        sweep("sweep-q-3x2-big", "c09_queue", (1, 2), q32, {"big": 1}, what="same programs, one element per page"),
        sweep("sweep-bq-2x2", "c09_queue", (2, 3), bq22, {"bounded": 1}, what="concurrent_bounded_queue capacity 1: every pair of sequences of length 1-2 over push/pop/try_push/try_pop whose reference model cannot block forever", tiers=("quick", "thorough")),
        sweep("sweep-bq-3x2", "c09_queue", (1, 2), bq32, {"bounded": 1}, what="capacity 1 and 2: three threads, sequences of length 1-2, programs whose reference model cannot block forever", weight=2.0),
        sweep("sweep-bq-3x2-keep", "c09_queue", (1, 2), bq31k, {"bounded": 1}, what="capacity 2 with one item queued at the start", weight=2.0),
    ]
PROPS["C09"] = {
    "explanation": "2-4 threads issue 1-2 queue operations each on one real concurrent_queue / concurrent_bounded_queue; every complete "
                   "history (call/return stamps) is checked by brute force against a sequential FIFO reference (std::deque with capacity), "
                   "including the sequential drain that follows; deadlock/livelock detection covers 'blocked calls complete'.",
    "legs": [
        leg("q-3t", "c09_queue", (2, 3), {"prog": "P11,P12|P21,G|G,G"}, what="2 producers + consumer, 4-byte elements"),
        leg("q-3t-big", "c09_queue", (2, 3), {"prog": "P11,P12|P21,G|G,G", "big": 1}, what="136-byte elements: one element per page, every push allocates a page"),
        leg("q-pagecross", "c09_queue", (2, 3), {"prog": "P11,P12|G,G|P21,G", "pre": 253, "keep": 2}, what="tickets straddle the 256-ticket page boundary of the lanes"),
        leg("q-keep", "c09_queue", (2, 2), {"prog": "G,G|G,P7|P8,G", "keep": 2}, what="non-empty start, pops race pushes"),
        leg("q-throw1", "c09_queue", (2, 2), {"prog": "P11,P12|P21,G|G,G", "big": 1, "throwat": 1}, what="first element copy in the window throws"),
        leg("q-throw2", "c09_queue", (2, 2), {"prog": "P11,P12|P21,G|G,G", "big": 1, "throwat": 2}, what="second element copy in the window throws"),
        leg("q-throw3", "c09_queue", (1, 2), {"prog": "P11,P12|P21,G|G,G", "throwat": 3}, what="third element copy throws (small elements)"),
        leg("bq-block", "c09_queue", (2, 3), {"prog": "P1,P2|Q,Q", "bounded": 1, "cap": 1}, what="capacity 1: blocking push vs blocking pop"),
        leg("bq-block3", "c09_queue", (2, 2), {"prog": "P1|P2|Q,Q", "bounded": 1, "cap": 1}, what="two blocked pushers, one popper"),
        leg("bq-try", "c09_queue", (2, 3), {"prog": "T1,T2|G,T3|G", "bounded": 1, "cap": 1}, what="try_push fails only when full"),
        leg("bq-neg", "c09_queue", (2, 2), {"prog": "Q|Q|P1,P2", "bounded": 1, "cap": 2}, what="negative size: two blocked pops, then pushes"),
        leg("bq-neg-try", "c09_queue", (2, 2), {"prog": "Q|G,T5|P1", "bounded": 1, "cap": 1}, what="blocked pop outstanding while try ops run"),
        leg("bq-abort", "c09_queue", (1, 2), {"prog": "Q|Q|P7|A", "bounded": 1, "cap": 4}, what="abort wakes blocked pops without losing the pushed item", weight=1.5),
        leg("bq-abort-push", "c09_queue", (1, 2), {"prog": "P1,P2|A|G", "bounded": 1, "cap": 1, "keep": 0}, what="abort wakes a blocked push"),
        leg("bq-abort-again", "c09_queue", (2, 3), {"prog": "Q,Q|a,P1,P2", "bounded": 1, "cap": 4}, what="a thread is aborted in pop(), blocks in pop() again and is served by a regular push: the second call must not report user_abort"),
        leg("bq-abort-again-push", "c09_queue", (2, 2), {"prog": "P1,P2,P3|a,Q,Q", "bounded": 1, "cap": 1, "keep": 0}, what="same for a blocked push: aborted once, the retried push blocks again and must complete normally when a pop frees the slot"),
        leg("bq-setcap", "c09_queue", (2, 2), {"prog": "P1,P2|C2,G", "bounded": 1, "cap": 1}, what="capacity raised while a push may be blocked"),
        leg("bq-big", "c09_queue", (2, 2), {"prog": "P1,P2|Q,G|T3", "bounded": 1, "cap": 2, "big": 1}, what="bounded queue with one element per page"),
    ] + _c09_sweeps(),
}

# ------------------------------------------------------------------------------------------------ C08
def _c08():
    legs = []
    plain = ["W|W|W", "W|W|t,W", "t|t|W", "W,W|W,t"]
    rw = ["W|R|U", "U|U|r", "D|W|R", "R|R|W", "U|W|t", "D|U|R", "r|t|W", "R,W|U|r"]
    for kind in ("spin", "queuing", "mutex", "spec"):
        for i, pr in enumerate(plain):
            legs.append(leg("%s-%d" % (kind, i), "c08_mutex", (3, 4), {"kind": kind, "prog": pr}, flags=("-fp", "-hb"), what="%s: %s" % (kind, pr)))
    for kind in ("spin_rw", "queuing_rw", "rw", "spec_rw"):
        for i, pr in enumerate(rw):
            legs.append(leg("%s-%d" % (kind, i), "c08_mutex", (2, 3), {"kind": kind, "prog": pr}, flags=("-fp", "-hb"), what="%s: %s" % (kind, pr),
                            weight=3.0 if kind == "queuing_rw" else 1.0))
        legs.append(leg("%s-4t" % kind, "c08_mutex", (1, 2), {"kind": kind, "prog": "W|R|R|U"}, flags=("-fp", "-hb"), what="%s: four threads" % kind))
    for kind, pr in [("spin", "W|W|t,W"), ("queuing", "W|W|t,W"), ("mutex", "W|W|W"), ("spin_rw", "W|R|U"), ("queuing_rw", "W|R|U"), ("rw", "W|R|U"), ("queuing_rw", "D|W|R")]:
        legs.append(leg("%s-tso-%s" % (kind, pr.replace("|", "").replace(",", "")), "c08_mutex@tso", (2, 2), {"kind": kind, "prog": pr}, flags=("-fp", "-hb", "-tso"), what="%s: %s under x86-TSO store buffers" % (kind, pr)))
    for kind in ("spin", "queuing", "mutex"):
        sw = [{"prog": prog_str(t)} for t in thread_programs(["W", "t"], 3, 2)]
        legs.append(sweep("sweep-%s-3x2" % kind, "c08_mutex", (1, 2), sw, {"kind": kind}, flags=("-fp", "-hb"), what="%s: every assignment of lock / try_lock section sequences of length 1-2 to three threads" % kind))
    for kind in ("queuing", "queuing_rw", "spin", "spin_rw", "mutex", "rw"):
        alpha = ["W", "t"] if kind in ("queuing", "spin", "mutex") else ["W", "R", "t", "U"]
        sw = [{"prog": prog_str(t), "reuse": 1} for t in thread_programs(alpha, 2, 3, keep=lambda c: sum(len(th) for th in c) >= 3)]
        legs.append(sweep("sweep-%s-reuse" % kind, "c08_mutex", (2, 3), sw, {"kind": kind}, flags=("-fp", "-hb"), what="%s: every thread keeps one scoped_lock object for all its sections (the queue node in it is reused after release): every pair of section sequences of length 1-3, at least 3 sections in total" % kind,
                          tiers=("quick", "thorough") if kind == "queuing" else ("thorough",)))
    for kind in ("rw",):   # the sleeping reader-writer mutex (the spinning ones cannot lose a wake-up)
        for i, pr in enumerate(("E|R", "E|R|R", "E|R,R")):
            legs.append(leg("%s-downgrade-wakes-%d" % (kind, i), "c08_mutex", (2, 3), {"kind": kind, "prog": pr}, flags=("-fp", "-hb"), what="%s: %s - a writer downgrades and keeps the read lock until the readers waiting in lock_shared got in (they must be let in / woken by the downgrade itself)" % (kind, pr)))
    for name, prm in [("addr-mutex-ba", {"kind": "mutex", "order": "ba", "unlock": "ab"}), ("addr-mutex-ab", {"kind": "mutex", "order": "ab", "unlock": "ba"}),
                      ("addr-rw-ba", {"kind": "rw", "order": "ba", "unlock": "ab"}), ("addr-rw-reader", {"kind": "rw", "order": "ba", "unlock": "ab", "reader": 1})]:
        legs.append(leg(name, "c02_addr", (2, 3), prm, what="no lost grant across objects: two mutexes whose addresses share an address-waiter bucket, one sleeper each; unlocking one must wake its own sleeper"))
    for kind in ("spin_rw", "queuing_rw", "rw"):
        sw = [{"prog": prog_str(t)} for t in thread_programs(["W", "R", "U", "D", "t", "r"], 3, 1)]
        legs.append(sweep("sweep-%s-3x1" % kind, "c08_mutex", (1, 2), sw, {"kind": kind}, flags=("-fp", "-hb"), what="%s: every multiset of three sections out of write / read / upgrade / downgrade / try-write / try-read" % kind,
                          tiers=("quick", "thorough") if kind == "queuing_rw" else ("thorough",), weight=3.0 if kind == "queuing_rw" else 1.5))
        sw = [{"prog": prog_str(t)} for t in thread_programs(["W", "R", "U", "D"], 2, 2)]
        legs.append(sweep("sweep-%s-2x2" % kind, "c08_mutex", (2, 3), sw, {"kind": kind}, flags=("-fp", "-hb"), what="%s: every pair of two-section sequences over write / read / upgrade / downgrade" % kind, weight=1.5))
    return legs
PROPS["C08"] = {
    "explanation": "2-4 threads run short lock programs (write/read sections, try-acquire, upgrade, downgrade) on one real mutex of each kind; "
                   "oracles: holder bookkeeping inside the critical sections, try/upgrade/downgrade truthfulness via a version counter, "
                   "queue-order service for the queuing locks (order of RMWs on the tail word vs order of section entry, conflicting requests only), "
                   "happens-before vector clocks following the actual memory_order arguments for 'visible to the next holder', deadlock/livelock detection for lost hand-offs. "
                   "Speculative mutexes are explored on their non-transactional fall-back path (hardware transactions cannot be scheduled).",
    "legs": _c08(),
}

# ------------------------------------------------------------------------------------------------ C13
def _c13_sweeps():
    tp = thread_programs(["P", "G"], 3, 2)
    hi = [{"prog": prog_str(t, ("P",), [110, 120, 130, 140, 150, 160]), "pre": "50,30"} for t in tp]
    mid = [{"prog": prog_str(t, ("P",), [45, 25, 65, 35, 15, 55]), "pre": "50,30"} for t in tp]
    tie = [{"prog": prog_str(t, ("P",), [50, 51, 52, 30, 31, 53]), "pre": "50,30"} for t in tp]
    emp = [{"prog": prog_str(t, ("P",), [20, 40, 10, 30, 60, 50]), "pre": ""} for t in tp]
    tp4 = thread_programs(["E", "M", "G"], 4, 1)
    four = [{"prog": prog_str(t, ("E", "M"), [45, 65, 25, 55]), "pre": "50,30"} for t in tp4]
    thr = [{"prog": prog_str(t, ("P",), [45, 65, 25, 55, 35, 15]), "pre": "50", "throwat": k} for t in thread_programs(["P", "G"], 3, 2, keep=lambda c: sum(o == "P" for th in c for o in th) >= 2) for k in (1, 2)]
    heaps = {3: "100,80,70", 4: "100,80,70,30", 5: "100,80,70,30,40", 6: "100,80,70,30,40,60", 7: "100,80,70,30,40,60,50"}
    hp = lambda sizes: [{"prog": prog_str(t, ("P",), [90, 10, 85, 20, 75, 65]), "pre": heaps[n]} for n in sizes for t in tp]
    return [
        sweep("sweep-3x2-heap46", "c13_pq", (1, 2), hp((4, 6)), what="same programs on heaps of 4 and 6 elements (a batch mixes pushes that are not yet heapified with a pop that re-heapifies: sibling / last-node index boundaries)", tiers=("quick", "thorough")),
        sweep("sweep-3x2-heap357", "c13_pq", (1, 2), hp((3, 5, 7)), what="same programs on heaps of 3, 5 and 7 elements"),
        sweep("sweep-3x2-above", "c13_pq", (1, 2), hi, what="every assignment of push/try_pop sequences of length 1-2 to three threads; pushed priorities above the initial contents", tiers=("quick", "thorough")),
        sweep("sweep-3x2-between", "c13_pq", (1, 2), mid, what="same programs, pushed priorities interleaved with the initial contents", tiers=("quick", "thorough")),
        sweep("sweep-3x2-ties", "c13_pq", (1, 2), tie, what="same programs, pushed priorities tie with the initial contents"),
        sweep("sweep-3x2-empty", "c13_pq", (1, 2), emp, what="same programs on an empty queue"),
        sweep("sweep-4x1-q", "c13_pq", (1, 1), [x for x in four if x["prog"].count("G") == 1], what="four threads: one try_pop and three pushes / emplaces in every combination (a batch with a postponed pop and several pushes that are heapified afterwards)", tiers=("quick",)),
        sweep("sweep-4x1", "c13_pq", (1, 2), four, what="four threads, one emplace / push(&&) / try_pop each (larger aggregator batches)"),
        sweep("sweep-3x2-throw", "c13_pq", (1, 2), thr, what="programs with at least two pushes; the first or the second element copy throws"),
    ]
PROPS["C13"] = {
    "explanation": "2-3 threads push/emplace/try_pop on one real concurrent_priority_queue (which operations share an aggregator batch is decided by the "
                   "interleaving); every history is checked by brute force against a multiset reference (a pop must return a maximum at its linearization point, "
                   "ties in any order); fault legs make the k-th element copy throw and require exactly one caller to see it and the history to stay linearizable.",
    "legs": [
        leg("push-pop-pop", "c13_pq", (2, 3), {"pre": "50,30", "prog": "P90|G|G"}, what="push races two pops"),
        leg("mixed", "c13_pq", (2, 2), {"pre": "50,30", "prog": "P90,G|E31,G|G"}, what="two ops per thread, duplicates of one priority"),
        leg("empty", "c13_pq", (2, 3), {"pre": "", "prog": "P10|G|G,G"}, what="pops on a (nearly) empty queue"),
        leg("monotone", "c13_pq", (2, 2), {"pre": "10,20,30", "prog": "M40,M50|G,G|P60"}, what="monotone run of pushes vs pops"),
        leg("ties", "c13_pq", (2, 2), {"pre": "50,51", "prog": "P52|G|G"}, what="equal priorities"),
        leg("throw1", "c13_pq", (2, 3), {"pre": "50", "prog": "P90|P91|G", "throwat": 1}, what="first element copy throws"),
        leg("throw2", "c13_pq", (2, 3), {"pre": "50", "prog": "P90|P91|G", "throwat": 2}, what="second element copy throws"),
        leg("throw-batch", "c13_pq", (2, 2), {"pre": "50,70", "prog": "P90,G|P91|G", "throwat": 1}, what="throwing push batched with pops"),
    ] + _c13_sweeps(),
}
# ------------------------------------------------------------------------------------------------ C10
def _c10_sweeps():
    one = ["I3", "E3", "F3", "A3", "R3", "X3", "J3", "M3", "C3"]
    k31 = [{"prog": prog_str(t), "prekeys": pk} for pk in ("", "3") for t in thread_programs(one, 3, 1)]
    k22 = [{"prog": prog_str(t), "prekeys": pk} for pk in ("", "3") for t in thread_programs(["I3", "E3", "F3", "X3", "A3"], 2, 2)]
    two = ["I3", "I259", "E3", "E259", "F3", "F259"]
    pc = [{"prog": prog_str(t), "prekeys": pk} for pk in ("", "3", "3,259") for t in thread_programs(two, 3, 1)]
    grow = ["I1", "I259", "E259", "X259", "R259", "F259", "E3", "F3", "A3"]
    pcg = [{"prog": prog_str(t), "prekeys": pk, "pre": 254 - (len(pk.split(",")) if pk else 0)} for pk in ("", "3", "259", "3,259")
           for t in thread_programs(grow, 3, 1, keep=lambda c: any(th[0] == "I1" or (th[0] == "I259") for th in c))]
    ch = [{"prog": prog_str(t), "prekeys": pk, "hash": "const"} for pk in ("", "5", "5,9") for t in thread_programs(["I5", "I9", "E5", "E9", "F5", "F9"], 3, 1)]
    return [
        sweep("sweep-1key-3x1", "c10_chm", (1, 2), k31, what="one key, absent or present: every multiset of three single operations out of insert / erase / find / count / emplace / the three accessor kinds / erase by accessor", tiers=("quick", "thorough")),
        sweep("sweep-1key-2x2", "c10_chm", (1, 2), k22, what="one key: every pair of two-operation sequences over insert / erase / find / write accessor / erase by accessor"),
        sweep("sweep-split-3x1", "c10_chm", (1, 2), pc, what="keys 3 and 259 (parent and child bucket of a split): every multiset of three insert/erase/find operations, from three initial contents"),
        sweep("sweep-split-grow", "c10_chm", (1, 2), pcg, {}, what="the table is one insert below the 255-element growth threshold, keys 3 / 259 are parent / child of the coming split: every multiset of three operations (at least one growing insert) out of insert / erase / erase by accessor / find / accessors, from four initial contents (segment enable + lazy rehash inside the window)", weight=2.0),
        sweep("sweep-const-hash", "c10_chm", (1, 2), ch, what="all keys in one bucket chain (constant hash)"),
    ]
PROPS["C10"] = {
    "explanation": "2-3 threads insert/emplace/find/count/erase (by key and by accessor) on one real concurrent_hash_map with identity, constant and low-bit "
                   "hashers, on keys chosen as parent/child buckets of a split and on tables pre-filled to a growth threshold; every history (plus the sequential "
                   "final reads) is checked by brute force against std::map; accessor exclusivity by bookkeeping and a destruction canary in the mapped value.",
    "legs": [
        leg("ins-ins-find", "c10_chm", (2, 3), {"prog": "I3|I3|F3"}, what="two inserts of one absent key + find"),
        leg("era-era-find", "c10_chm", (2, 3), {"prog": "E3|E3|F3", "prekeys": "3"}, what="two erases of one present key + find"),
        leg("split-pair", "c10_chm", (2, 2), {"prog": "I3|I259|F3,F259"}, what="keys that are parent/child buckets of a split"),
        leg("accessors", "c10_chm", (2, 3), {"prog": "J3|A3|R3", "prekeys": "3"}, what="accessor vs accessor vs const_accessor on one element"),
        leg("erase-by-accessor", "c10_chm", (2, 2), {"prog": "X3|A3|I3", "prekeys": "3"}, what="erase(accessor) vs accessor vs re-insert"),
        leg("readers-eraser", "c10_chm", (2, 2), {"prog": "R3|R3|E3", "prekeys": "3"}, what="two const_accessors vs erase"),
        leg("grow-255", "c10_chm", (2, 2), {"prog": "I1|I2|I3,F1", "pre": 254}, what="inserts cross the 255-element growth threshold", weight=2.0),
        leg("grow-rehash", "c10_chm", (2, 2), {"prog": "I259,E3|F3|E259,I3", "prekeys": "3", "pre": 254}, what="lazy rehash of a child bucket races insert/erase in its parent", weight=2.0),
        leg("grow-erase-acc", "c10_chm", (2, 3), {"prog": "X259|I1|R259", "prekeys": "259", "pre": 253}, what="erase(accessor) of a key in a child bucket vs the insert that grows the table vs a const_accessor whose lookup rehashes the child bucket", weight=2.0),
        leg("grow-erase-key", "c10_chm", (2, 3), {"prog": "E259|I1|F259", "prekeys": "259", "pre": 253}, what="erase(key) vs growth vs find of the moved key", weight=2.0),
        leg("grow-find-acc", "c10_chm", (2, 3), {"prog": "A259|I1|E259", "prekeys": "259", "pre": 253}, what="write accessor vs growth vs erase of the moved key", weight=2.0),
        leg("const-hash", "c10_chm", (2, 2), {"prog": "I5|E9|F5,F9", "hash": "const", "prekeys": "9"}, what="everything in one bucket"),
        leg("low2-hash", "c10_chm", (2, 2), {"prog": "I4,I8|E12|C4,C8", "hash": "low2", "prekeys": "12"}, what="hash keeps only two low bits"),
        leg("emplace-count", "c10_chm", (2, 2), {"prog": "M7|M7|C7,E7"}, what="emplace twice, count, erase"),
        leg("first-insert", "c10_chm", (2, 2), {"prog": "I0|I1|I2"}, what="three first inserts into an empty table (first segment enable)"),
    ] + _c10_sweeps(),
}

# ------------------------------------------------------------------------------------------------ C11
def _c11_sweeps():
    alpha = ["B", "E", "G2", "G3", "D2", "L5"]
    tp = thread_programs(alpha, 3, 1)
    sw = [{"prog": prog_str(t), "pre": pre} for pre in (0, 1, 2, 3, 7, 8, 15, 16) for t in tp]
    tp2 = thread_programs(["B", "G2", "G5", "L9"], 2, 2)
    sw2 = [{"prog": prog_str(t), "pre": pre} for pre in (0, 1, 6, 14) for t in tp2]
    thr = [{"prog": prog_str(t), "pre": pre, "throwat": k} for pre in (0, 1, 7) for t in thread_programs(["B", "G2", "G3"], 3, 1) for k in (1, 2, 3)]
    af = [{"prog": prog_str(t), "pre": pre, "allocfail": k} for pre in (0, 1, 6, 7, 8) for t in thread_programs(["B", "G3", "G9", "L9"], 2, 1) for k in (1, 2, 3, 4)]
    af3 = [{"prog": prog_str(t), "pre": pre, "allocfail": k} for pre in (0, 1, 7) for t in thread_programs(["B", "G3", "G9", "L9"], 3, 1) for k in (1, 2, 3, 4)]
    return [
        sweep("sweep-allocfail-3", "c11_vector", (1, 2), af3, what="three growth calls, the first .. fourth allocation inside the window throws, start sizes 0,1,7", weight=2.0),
        sweep("sweep-allocfail", "c11_vector", (1, 2), af, what="two growth calls, the first .. fourth allocation (segment or long segment table) inside the window throws std::bad_alloc, start sizes 0,1,6,7,8; afterwards at(i) for every i < size() must return a constructed element or throw", tiers=("quick", "thorough"), weight=2.0),
        sweep("sweep-3x1-q", "c11_vector", (1, 1), [x for x in sw if x["pre"] in (0, 1, 7, 15)], what="every multiset of three growth calls out of push_back / emplace_back / grow_by(2|3,value) / grow_by(2) / grow_to_at_least(5) from start sizes 0,1,7,15", tiers=("quick",), weight=2.0),
        sweep("sweep-3x1", "c11_vector", (2, 2), sw, what="same from start sizes 0,1,2,3,7,8,15,16", tiers=("thorough",), weight=2.0),
        sweep("sweep-2x2", "c11_vector", (1, 2), sw2, what="every pair of two-call sequences over push_back / grow_by(2|5) / grow_to_at_least(9) from start sizes 0,1,6,14"),
        sweep("sweep-throw", "c11_vector", (1, 2), thr, what="three growth calls, the first / second / third element construction throws, start sizes 0,1,7", weight=2.0),
    ]
PROPS["C11"] = {
    "explanation": "2-3 threads call push_back/emplace_back/grow_by/grow_to_at_least on one real concurrent_vector (tracking allocator, element type with "
                   "per-address construction counters) from start sizes 0, 1, 2, 3, 7, 8 (first-block election, embedded-table limit); oracle: returned ranges are "
                   "disjoint and tile [0,size()), values and addresses are right, every element constructed once inside allocated memory; fault legs throw from the "
                   "k-th constructor / allocation; a sequential leg enumerates the index-to-segment arithmetic for all indices < 2^20 and around every 2^k.",
    "legs": [
        leg("grow-from-0", "c11_vector", (2, 3), {"prog": "B|G3|L9"}, what="first-block election; push_back vs grow_by(3) vs grow_to_at_least(9)"),
        leg("grow-from-7", "c11_vector", (2, 2), {"prog": "B|G3|L9", "pre": 7}, what="crossing the embedded table limit (8 elements)"),
        leg("push-emplace", "c11_vector", (2, 3), {"prog": "B,B|E|G2", "pre": 1}, what="single-element growth from size 1"),
        leg("two-grow", "c11_vector", (2, 2), {"prog": "G5|G9|B", "pre": 3}, what="two multi-segment grow_by calls"),
        leg("grow-zero", "c11_vector", (2, 2), {"prog": "G0,B|D2|G1", "pre": 2}, what="grow_by(0), default-constructed grow_by"),
        leg("atleast-two", "c11_vector", (2, 2), {"prog": "L4|L6|B", "pre": 0}, what="two grow_to_at_least calls from empty"),
        leg("pow2-edges", "c11_vector", (2, 2), {"prog": "G1|G2|B", "pre": 15}, what="start at 2^k-1: ranges straddle a segment boundary"),
        leg("pow2-edges16", "c11_vector", (2, 2), {"prog": "G1|G3|E", "pre": 16}, what="start at 2^k"),
        leg("throw-ctor2", "c11_vector", (2, 2), {"prog": "B|G3|B", "throwat": 2}, what="second element construction throws"),
        leg("throw-ctor3", "c11_vector", (2, 2), {"prog": "G3|G2|B", "throwat": 3, "pre": 1}, what="third element construction throws (inside a grow_by)"),
        leg("alloc-fail1", "c11_vector", (2, 2), {"prog": "B|G3|B", "allocfail": 1}, what="first allocation in the window throws"),
        leg("alloc-fail2", "c11_vector", (2, 2), {"prog": "B|G9|B", "allocfail": 2, "pre": 2}, what="second allocation throws"),
        leg("alloc-fail-table", "c11_vector", (2, 2), {"prog": "G3|G9|B", "allocfail": 3, "pre": 6}, what="allocation failure around the long-table switch"),
        leg("segment-arithmetic", "c11_segarith", (0, 0), {}, flags=(), what="bijection of segment_index_of/segment_base/segment_size: all indices < 2^20, +-2 around every 2^k up to 2^63"),
        leg("huge-sizes-q", "c11_huge", (0, 0), {"nsizes": 2, "case_timeout": 90}, flags=(), what="growth calls crossing 2^31 (one-byte elements, address space only): grow_to_at_least(n) / grow_to_at_least(n,value) / grow_by for n = 2^31-1, 2^31 from sizes 0 and 5: size(), constructions, allocated segments, element addresses", tiers=("quick",), weight=2.0),
        leg("huge-sizes", "c11_huge", (0, 0), {"nsizes": 7, "case_timeout": 240}, flags=(), what="same for n = 2^31-1, 2^31, 2^31+1, 2^32-1, 2^32, 2^32+3, 3*2^30", tiers=("thorough",), weight=4.0),
    ] + _c11_sweeps(),
}

# ------------------------------------------------------------------------------------------------ C12
def _c12_sweeps():
    alpha = ["I7", "I8", "M7", "F7", "C7", "T"]
    useful = lambda c: sum(o[0] in "IM" for th in c for o in th) >= 2
    L = []
    for kind in ("umap", "uset", "ummap", "umset"):
        sw = [{"prog": prog_str(t), "kind": kind, "prekeys": pk} for pk in ("", "7", "3,9") for t in thread_programs(alpha, 3, 1, keep=useful)]
        L.append(sweep("sweep-%s-3x1" % kind, "c12_assoc", (1, 2), sw, what="%s: every multiset of three single operations (at least two insertions) over insert/emplace/find/count/traversal on keys 7 and 8, from three initial contents" % kind,
                       tiers=("quick", "thorough") if kind in ("umap", "ummap") else ("thorough",)))
        sw = [{"prog": prog_str(t), "kind": kind, "hash": "const", "prekeys": "5"} for t in thread_programs(["I7", "I8", "I3", "F7", "T"], 2, 2, keep=useful)]
        L.append(sweep("sweep-%s-2x2-const" % kind, "c12_assoc", (1, 2), sw, what="%s, constant hash: every pair of two-operation sequences with at least two insertions" % kind))
    for kind in ("omap", "oset", "ommap", "omset"):
        sw = [{"prog": prog_str(t), "kind": kind, "prekeys": pk, "lv": lv} for lv in ("1231", "3123", "2222") for pk in ("", "7", "3,9") for t in thread_programs(alpha, 3, 1, keep=useful)]
        L.append(sweep("sweep-%s-3x1" % kind, "c12_assoc", (1, 2), sw, what="%s (skip list): same programs with three level assignments" % kind,
                       tiers=("quick", "thorough") if kind in ("omap",) else ("thorough",), weight=2.0))
        sw = [{"prog": prog_str(t), "kind": kind, "prekeys": "5", "lv": "2312"} for t in thread_programs(["I7", "I8", "I3", "F7", "T"], 2, 2, keep=useful)]
        L.append(sweep("sweep-%s-2x2" % kind, "c12_assoc", (1, 2), sw, what="%s: every pair of two-operation sequences with at least two insertions" % kind))
    # node handles: insert(node_type&&) of a node extracted from another container, racing lookups / traversal / plain inserts
    for kind, lvs in (("ommap", ("3333", "3232")), ("omset", ("3333",)), ("omap", ("3333",)), ("ummap", ("1",)), ("umap", ("1",))):
        sw = [{"prog": pr, "kind": kind, "prekeys": pk, "lv": lv} for lv in lvs for pk in ("", "7", "3,9") for pr in ("H7|C7|T", "H7|I7|C7", "H7|F7,C7|I8", "H7|H8|T", "H7|C7,C7|N7")]
        L.append(sweep("sweep-%s-nodehandle" % kind, "c12_assoc", (1, 2), sw, what="%s: insert(node_type&&) of a node extracted from another container (where further nodes followed it) racing count / find / traversal / inserts" % kind,
                       tiers=("quick", "thorough") if kind in ("ommap",) else ("thorough",)))
    for kind in ("uset", "umap", "ummap"):
        sw = [{"prog": pr, "kind": kind, "buckets": b, "keysfirst": 1, "prekeys": "7,9", "pre": pre, "prebase": pb, "prestride": ps} for b in (1, 2, 4) for pre in (0, 9, 40) for (pb, ps) in ((100, 1), (1024, 64)) for pr in ("F7|N9|I64,I128", "I64|I128,F7|C9,T")]
        L.append(sweep("sweep-%s-small-table" % kind, "c12_assoc", (1, 2), sw, what="%s constructed with 1, 2 or 4 buckets: keys inserted while the table is small, growth by 0 / 9 / 40 further keys, then lookups racing inserts (elements stay reachable through bucket growth)" % kind,
                       tiers=("quick", "thorough") if kind == "uset" else ("thorough",)))
    import itertools as _it
    for kind in ("uset", "umap", "ummap", "oset", "ommap"):
        lvs = ("1",) if kind[0] == "u" else ("1231", "3333")
        sw = [{"prog": "S|I%d|I%d" % ab, "kind": kind, "prekeys": pk, "lv": lv, "rounds": 2 if kind[0] == "u" else 3} for lv in lvs for pk in ("9,3", "1,9,3,12", "") for ab in _it.combinations((1, 2, 4, 6, 17), 2)]
        L.append(sweep("sweep-%s-range" % kind, "c12_assoc", (1, 2), sw, what="%s: a traversal through range() that is split in two rounds and walked piece by piece, racing two inserts (keys 1, 2, 4 equal the indices of the buckets at which an 8-bucket table is split: they land directly behind a bucket's dummy node); every element present before is seen exactly once, none twice (ordered kinds: three splitting rounds; a split point outside the piece is the recorded finding)" % kind,
                       tiers=("quick", "thorough") if kind in ("uset", "oset") else ("thorough",)))
    qa = ["I7", "I8", "C7"]
    for kind in ("ummap", "umset"):
        sw = [{"prog": prog_str(t), "kind": kind, "hash": "const", "prekeys": pk} for pk in ("5", "7") for t in thread_programs(qa, 2, 2, keep=useful)]
        L.append(sweep("sweep-%s-const-q" % kind, "c12_assoc", (1, 2), sw, weight=3.0, what="%s, constant hash (all keys share one split-order key): every pair of sequences of length 1-2 over insert 7 / insert 8 / count 7 with at least two insertions; equivalent keys must stay adjacent" % kind,
                       tiers=("quick", "thorough") if kind == "ummap" else ("thorough",)))
    return L
PROPS["C12"] = {
    "explanation": "2-3 threads insert/emplace/find/count/contains and traverse one real container of each family (split-ordered hash list: unordered map/set/multimap/"
                   "multiset with identity and constant hashers, pre-filled to the bucket-doubling threshold; skip list: map/set/multimap/multiset instantiated with a "
                   "level generator whose levels are a leg parameter, plus the stock concurrent_map with its own generator under a frozen clock). Oracles: brute-force "
                   "linearizability of insert/find/count against a (multi)set, final contents = union of successful inserts, traversal sees every element present before "
                   "it began exactly once and no element more often than it can exist, ordered containers iterate in comparator order.",
    "legs": [
        leg("umap-same-key", "c12_assoc", (2, 3), {"kind": "umap", "prog": "I7|I7|T"}, what="two inserts of one key + traversal", weight=2.0),
        leg("uset-same-key", "c12_assoc", (2, 3), {"kind": "uset", "prog": "I7|I7|I7"}, what="set: three inserts of one key passed as rvalues (the key type's move constructor leaves a moved-from key that no longer compares equal, like std::string): the retry after a lost CAS must not compare against the moved-from key"),
        leg("oset-same-key", "c12_assoc", (2, 3), {"kind": "oset", "lv": "2312", "prog": "I7|I7|I7"}, what="ordered set: same"),
        leg("umap-one-bucket", "c12_assoc", (2, 3), {"kind": "umap", "hash": "const", "prekeys": "3,5", "prog": "I7|I9|T,F7"}, what="constant hash: all keys adjacent in split order"),
        leg("umap-doubling", "c12_assoc", (2, 2), {"kind": "umap", "pre": 32, "prog": "I8|I16|T"}, what="window crosses the 32-element table doubling; lazy init_bucket", weight=2.0),
        leg("uset-doubling", "c12_assoc", (2, 2), {"kind": "uset", "pre": 32, "prog": "I8,F8|M24|N8,T"}, what="set: doubling + find/contains", weight=2.0),
        leg("ummap-equal", "c12_assoc", (1, 2), {"kind": "ummap", "prog": "I7|I7|C7,T"}, what="multimap: equal keys from two threads", weight=3.0),
        leg("umset-equal", "c12_assoc", (2, 2), {"kind": "umset", "prekeys": "7", "prog": "I7|M7|C7"}, what="multiset: many equivalent keys"),
        leg("umap-adjacent", "c12_assoc", (2, 2), {"kind": "umap", "prekeys": "1", "prog": "I9|I17|F9,F17"}, what="keys that fall into one bucket chain (same low bits)"),
        leg("omap-same-key", "c12_assoc", (2, 3), {"kind": "omap", "prekeys": "3,9", "lv": "1231", "prog": "I7|I7|T"}, what="skip list: same key, mixed levels"),
        leg("omap-neighbours", "c12_assoc", (2, 3), {"kind": "omap", "prekeys": "3,9", "lv": "3212", "prog": "I5|I6|T,F5"}, what="skip list: adjacent keys share predecessors on several levels"),
        leg("omap-tall", "c12_assoc", (2, 2), {"kind": "omap", "prekeys": "1,9", "lv": "3333", "prog": "I5|I4|N5,T"}, what="all nodes tall"),
        leg("ommap-equal", "c12_assoc", (2, 2), {"kind": "ommap", "lv": "2132", "prog": "I7|I7|C7,T"}, what="multimap skip list: equal keys"),
        leg("oset-mixed", "c12_assoc", (2, 2), {"kind": "oset", "lv": "1312", "prekeys": "2,8", "prog": "I5,F5|I6|N6,T"}, what="set skip list"),
        leg("omset-equal", "c12_assoc", (2, 2), {"kind": "omset", "lv": "1312", "prekeys": "5", "prog": "I5|I5|C5,T"}, what="multiset skip list"),
        leg("cmap-stock", "c12_assoc", (2, 2), {"kind": "cmap", "prekeys": "3,9", "prog": "I7|I7|T"}, what="stock tbb::concurrent_map (own level generator, frozen clock)"),
    ] + _c12_sweeps(),
}

# ------------------------------------------------------------------------------------------------ C19
PROPS["C19"] = {
    "explanation": "enumerable_thread_specific / combinable: 2-3 threads call local() for the first time (and again) while 0, 2 or 4 other threads are already "
                   "registered, so the window crosses the table doublings; oracle: distinct stable addresses, one initialiser call per thread, iteration/combine "
                   "visit each element once. collaborative_call_once: 2-3 external threads (each with its implicit arena) arrive at one flag on the real scheduler; the function throws on a leg-chosen subset of attempts and optionally runs a task_group so that waiters moonlight; oracle: one successful completion, callers return after it and (happens-before clocks) see its effects, each exception reaches exactly one caller, the flag retries / stays done.",
    "legs": [
        leg("ets-fresh3", "c19_ets", (2, 3), {"n": 3}, what="three first accesses on an empty container (third triggers growth)"),
        leg("ets-pre2", "c19_ets", (3, 4), {"pre": 2, "n": 2}, what="two registered, two new (growth at the third)"),
        leg("ets-pre4", "c19_ets", (3, 4), {"pre": 4, "n": 2}, what="four registered, two new (growth at the fifth)"),
        leg("ets-pre2-n3", "c19_ets", (2, 2), {"pre": 2, "n": 3}, what="two registered, three new"),
        leg("ets-key", "c19_ets", (3, 4), {"kind": "ets_key", "pre": 2, "n": 2}, what="ets_key_per_instance (native TLS key) variant"),
        leg("ets-park5", "c19_ets", (1, 1), {"kind": "ets_park", "n": 5, "park": 5}, what="five first accesses that are all between reading the table root and publishing their own array when the window opens (threads parked inside the user allocator): arrays of 4, 4, 8, 8 and 16 slots race for the root", weight=3.0),
        leg("ets-park3", "c19_ets", (2, 3), {"kind": "ets_park", "n": 3, "park": 3}, what="three parked first accesses"),
        leg("ets-park-pre2", "c19_ets", (2, 3), {"kind": "ets_park", "pre": 2, "n": 3, "park": 3}, what="two registered threads, three parked first accesses"),
        leg("ets-moved-2+3", "c19_ets", (2, 3), {"pre": 2, "n": 3, "moved": 1}, what="two threads registered in a container that is then move-constructed into a new one; three new first accesses there (the table of 4 must grow at the third element)"),
        leg("ets-moved-4+5", "c19_ets", (1, 1), {"pre": 4, "n": 5, "moved": 2}, what="four registered, container move-assigned, five new first accesses (table of 8 fills up)", weight=2.0),
        leg("ets-moved-key", "c19_ets", (2, 3), {"kind": "ets_key", "pre": 2, "n": 3, "moved": 2}, what="ets_key_per_instance: move assignment then three new first accesses"),
        leg("ets-move", "c19_ets", (3, 4), {"kind": "swap", "mode": 1}, what="a = std::move(b): the thread-to-element mapping travels with the contents"),
        leg("ets-swap", "c19_ets", (3, 4), {"kind": "swap", "mode": 0}, what="contents exchanged by three moves"),
        leg("ets-key-move", "c19_ets", (3, 4), {"kind": "swap_key", "mode": 1}, what="ets_key_per_instance: move assignment must carry the native TLS key"),
        leg("ets-key-swap", "c19_ets", (3, 4), {"kind": "swap_key", "mode": 0}, what="ets_key_per_instance: exchange by three moves"),
        sweep("ets-clear", "c19_ets", (1, 2), [{"kind": k, "mode": m} for k in ("clear", "clear_key") for m in (0, 1, 2)], what="two threads use a container, the contents are cleared (clear() / copy assignment from an empty / from a used container), the same threads use it again: their next local() is a first use (fresh element, one initialiser call each, exists == false); default and ets_key_per_instance (native TLS key) variants", tiers=("quick", "thorough")),
        leg("combinable", "c19_ets", (2, 2), {"kind": "comb", "pre": 2, "n": 3}, what="combinable: combine / combine_each"),
        leg("once-2", "c19_once", (2, 3), {"callers": 2, "mask": 0}, flags=("-fp", "-hb"), what="two callers, no exception", weight=2.0),
        leg("once-2-throw1", "c19_once", (2, 3), {"callers": 2, "mask": 1}, flags=("-fp", "-hb"), what="first attempt throws, second caller retries", weight=2.0),
        leg("once-2-throw-all", "c19_once", (2, 2), {"callers": 2, "mask": 3}, flags=("-fp", "-hb"), what="both attempts throw; flag stays reusable", weight=2.0),
        leg("once-3-throw1", "c19_once", (1, 2), {"callers": 3, "mask": 1}, flags=("-fp", "-hb"), what="three callers, first attempt throws", weight=3.0),
        leg("once-3-throw2", "c19_once", (1, 2), {"callers": 3, "mask": 2}, flags=("-fp", "-hb"), what="three callers, second attempt throws", weight=3.0),
        leg("once-inner", "c19_once", (1, 2), {"callers": 2, "mask": 0, "inner": 1}, flags=("-fp", "-hb"), what="the function runs a task_group: waiting callers moonlight in the winner's arena", weight=3.0),
        leg("once-cancelled-caller", "c19_once", (1, 2), {"callers": 2, "mask": 0, "inner": 1, "cancelled": 1}, flags=("-fp", "-hb"), what="one caller calls from inside a task whose task_group is already cancelled: the function still runs to completion exactly once, its own nested tasks included, and the other caller sees the effects", weight=2.0),
        leg("once-cancelled-caller-throw", "c19_once", (1, 2), {"callers": 2, "mask": 1, "inner": 1, "cancelled": 1}, flags=("-fp", "-hb"), what="same, the first attempt throws", weight=2.0),
        leg("once-inner-throw", "c19_once", (1, 2), {"callers": 2, "mask": 1, "inner": 1}, flags=("-fp", "-hb"), what="moonlighting + exception", weight=3.0),
    ],
}

# ------------------------------------------------------------------------------------------------ C01
def _c01():
    L = [
        leg("deque-basic", "c01_deque", (4, 6), {"owner": "SSGSGG", "thieves": 1, "steals": 2}, what="owner spawn/pop vs one thief"),
        leg("deque-tie", "c01_deque", (4, 6), {"owner": "SG", "thieves": 2, "steals": 1}, what="one task: owner and two thieves tie on it"),
        leg("deque-2thieves", "c01_deque", (3, 4), {"owner": "SSGG", "thieves": 2, "steals": 2}, what="two thieves contend for the pool lock"),
        leg("deque-compact", "c01_deque", (4, 6), {"owner": "SSSSSSG", "prefill": 60, "presteal": 50, "thieves": 1, "steals": 2}, what="spawn compacts the pool in place while a thief is active"),
        leg("deque-grow", "c01_deque", (4, 6), {"owner": "SSG", "prefill": 63, "presteal": 1, "thieves": 1, "steals": 2}, what="spawn grows (relocates) the pool while a thief is active"),
        leg("deque-empty", "c01_deque", (4, 6), {"owner": "GSG", "prefill": 1, "thieves": 1, "steals": 2}, what="pop of the last task vs steal, then respawn"),
    ]
    L.append(leg("deque-seq7q", "c01_deqseq", (0, 0), {"depth": 7}, flags=(), what="single thread, every sequence of length 1..7 over {spawn with isolation tag 0/1/2, get_task with isolation 0/1/2, steal_task with isolation 0/1} on one real arena_slot: skipped tasks, holes, restored bounds; nothing lost / handed out twice / handed to a non-matching taker, nothing refused while a matching task is in the pool", tiers=("quick",)))
    L.append(leg("deque-seq8", "c01_deqseq", (0, 0), {"depth": 8}, flags=(), what="same, every sequence of length 1..8", tiers=("thorough",), weight=2.0))
    L.append(leg("deque-seq6-proxies", "c01_deqseq", (0, 0), {"depth": 6, "proxies": 1}, flags=(), what="same with affinity proxies: every sequence of length 1..6 over the 8 operations plus {spawn a mailed proxy with tag 0 / 1, the mailbox side claims the oldest mailed proxy}: a proxy is claimed from exactly one side, an emptied proxy is freed once and never read again after its memory was reused", tiers=("quick",)))
    L.append(leg("deque-seq8-proxies", "c01_deqseq", (0, 0), {"depth": 8, "proxies": 1}, flags=(), what="same, every sequence of length 1..8 over the 11 operations", tiers=("thorough",), weight=6.0))
    L.append(leg("deque-seq6-pre", "c01_deqseq", (0, 0), {"depth": 6, "pre": 6}, flags=(), what="same sequences on a pool that already holds three untagged tasks and has an advanced head"))
    for name, prm in [("tie", {"owner": "SG", "thieves": 2, "steals": 1}), ("basic", {"owner": "SSGSGG", "thieves": 1, "steals": 2}), ("compact", {"owner": "SSSSSSG", "prefill": 60, "presteal": 50, "thieves": 1, "steals": 2}),
                      ("grow", {"owner": "SSG", "prefill": 63, "presteal": 1, "thieves": 1, "steals": 2}), ("empty", {"owner": "GSG", "prefill": 1, "thieves": 1, "steals": 2})]:
        L.append(leg("deque-%s-tso" % name, "c01_deque@tso", (3, 4), prm, flags=("-fp", "-tso"), what="same under x86-TSO store buffers: a non-seq_cst store may stay invisible while other threads run (owner --tail / thief ++head write-read ordering)"))
    one_worker = [("tg", "task_group run/run/wait"), ("nested", "a body runs a further body into the group during the wait"), ("tree", "three-level chain of run()s"),
                  ("run_and_wait", "run_and_wait whose body runs more work"), ("handle", "task_handle / defer"), ("two_groups", "nested groups"),
                  ("pfor", "parallel_for over 4 elements, simple_partitioner (wait tree of fold_tree)"), ("pfor_auto", "parallel_for(0,5) auto_partitioner"),
                  ("pfor_aff", "affinity_partitioner second run: tasks mailed through proxies"), ("enqueue", "enqueue + task_handle enqueue + execute{wait}"),
                  ("isolate", "isolated inner group while outer tasks are pending"), ("cancel", "cancelled group: each unit executed at most once, group reusable")]
    for k, what in one_worker:
        L.append(leg("rt-" + k, "c01_rt", (2, 3), {"kind": k}, flags=("-fp", "-hb"), what=what))
    for k in ("tg", "pfor_aff", "enqueue"):
        L.append(leg("rt-%s-asleep" % k, "c01_rt", (2, 3), {"kind": k, "asleep": 1}, flags=("-fp", "-hb"), what="same with the worker asleep when the window opens"))
    for ta in (1, 2, 3):
        L.append(leg("rt-copythrow-%d" % ta, "c01_rt", (2, 3), {"kind": "copythrow", "throwat": ta}, flags=("-fp", "-hb"), what="the copy of the functor into its task throws inside the %d. task_group::run; the group keeps being used: waits still cover every accepted unit" % ta))
    L.append(sweep("rt-reuse_after_throw", "c01_rt", (1, 2), [{"mode": m} for m in (0, 1, 2, 3)], {"kind": "reuse_after_throw"}, flags=("-fp", "-hb"), what="a task_group whose wait / run_and_wait(f) / run_and_wait(task_handle) left by an exception (thrown by f, by a run() task, by the handle's task) is used again: the three units submitted afterwards run exactly once and the next wait covers them (work is skipped only if its group was cancelled)", tiers=("quick", "thorough")))
    L.append(leg("rt-abandon", "c01_rt", (2, 3), {"kind": "abandon", "children": 3}, flags=("-fp", "-hb"), what="one worker, two arenas: the worker spawns three tasks in the normal-priority arena and is recalled for a high-priority arena before it gets to them (it leaves with a non-empty pool); the main thread then enters the arena in another slot and waits for the group: the abandoned tasks must be found"))
    L.append(leg("rt-copythrow-defer", "c01_rt", (2, 3), {"kind": "copythrow", "throwat": 2, "defer": 1}, flags=("-fp", "-hb"), what="same, the failing call is task_group::defer"))
    for k in ("tg", "nested", "run_and_wait", "pfor", "pfor_auto", "pfor_aff", "isolate", "cancel", "enqueue"):
        L.append(leg("rt-%s-P1" % k, "c01_rt", (1, 2), {"kind": k, "P": 1}, flags=("-fp", "-hb"), what="%s with max_allowed_parallelism 1 / task_arena(1): no worker may be needed for the wait to cover all work" % k, weight=0.3))
    L.append(leg("rt-tg-P3", "c01_rt", (1, 2), {"kind": "nested", "P": 3}, flags=("-fp", "-hb"), what="two workers", weight=2.0))
    L.append(leg("rt-ext_run", "c01_rt", (1, 2), {"kind": "ext_run"}, flags=("-fp", "-hb"), what="two external threads run() into one group while it is waited for (reference vertex 0<->1)", weight=3.0))
    L.append(leg("rt-oversub", "c01_rt", (1, 2), {"kind": "oversub"}, flags=("-fp", "-hb"), what="three threads, two slots: delegated execute", weight=3.0))
    return L
PROPS["C01"] = {
    "explanation": "(a) white-box: the owner of a real arena_slot spawns/pops while 1-2 thieves steal, incl. pool compaction and growth; every task obtained exactly once. "
                   "(b-d) public API on the real scheduler with one or two real worker threads: task_group wait trees, run_and_wait, task_handle, nested groups, parallel_for "
                   "(simple/auto/affinity partitioner: fold_tree, mailboxes, proxies), enqueue, isolate, cancelled groups, oversubscribed arenas. Oracle: per-unit execution "
                   "ledger checked when the wait returns, happens-before clocks on the units' writes, deadlock detection.",
    "legs": _c01(),
}

# ------------------------------------------------------------------------------------------------ C02
def _c02():
    L = []
    for name, prm, b in [("mon-1-one", {"sleepers": 1, "notify": "one"}, (3, 4)), ("mon-2-all", {"sleepers": 2, "notify": "all"}, (3, 3)), ("mon-2-one", {"sleepers": 2, "notify": "one"}, (2, 3)),
                         ("mon-2-pred", {"sleepers": 2, "notify": "pred"}, (2, 3)), ("mon-2-abort", {"sleepers": 2, "notify": "abort"}, (2, 3)),
                         ("mon-1-two-notifiers", {"sleepers": 1, "notifiers": 2, "notify": "one"}, (3, 4)), ("mon-2-relaxed", {"sleepers": 2, "notify": "relaxed"}, (2, 3))]:
        L.append(leg(name, "c02_monitor", b, prm, what="concurrent_monitor: prepare/re-check/commit vs state change + notify (%s)" % prm["notify"]))
    for name, prm, b in [("mon-1-one-tso", {"sleepers": 1, "notify": "one", "plainset": 1}, (3, 4)), ("mon-2-all-tso", {"sleepers": 2, "notify": "all", "plainset": 1}, (2, 3)),
                         ("mon-2-pred-tso", {"sleepers": 2, "notify": "pred", "plainset": 1}, (2, 3)), ("mon-1-two-notifiers-tso", {"sleepers": 1, "notifiers": 2, "notify": "one"}, (2, 3))]:
        L.append(leg(name, "c02_monitor@tso", b, prm, flags=("-fp", "-tso"), what="concurrent_monitor under x86-TSO store buffers; the condition is set by a plain store, so only the monitor's own fences order it before the wait-set test"))
    L.append(leg("bq-block", "c09_queue", (2, 3), {"prog": "P1,P2|Q,Q", "bounded": 1, "cap": 1}, what="concurrent_bounded_queue capacity 1: blocked push vs pop and blocked pop vs push"))
    L.append(leg("bq-3", "c09_queue", (2, 2), {"prog": "P1|P2|Q,Q", "bounded": 1, "cap": 1}, what="two blocked pushers, one popper"))
    L.append(leg("bq-failed-push", "c09_queue", (2, 3), {"prog": "Q|P1,P2", "bounded": 1, "cap": 4, "throwat": 1}, what="a pop sleeps on an empty queue, the next push fails (element constructor throws), the push after it succeeds: the sleeper must be woken"))
    L.append(leg("bq-failed-push2", "c09_queue", (2, 2), {"prog": "Q|Q|P1,P2,P3", "bounded": 1, "cap": 4, "throwat": 2}, what="two sleeping pops, the second of three pushes fails"))
    L.append(leg("mutex-sleep", "c08_mutex", (2, 3), {"kind": "mutex", "prog": "W,W|W|W"}, what="tbb::mutex futex sleeping path"))
    L.append(leg("rw_mutex-sleep", "c08_mutex", (2, 3), {"kind": "rw", "prog": "W|R,W|U"}, what="tbb::rw_mutex sleeping path"))
    for i, pr in enumerate(("E|R", "E|R|R", "E|R,R")):
        L.append(leg("rw_mutex-downgrade-wakes-%d" % i, "c08_mutex", (2, 3), {"kind": "rw", "prog": pr}, flags=("-fp", "-hb"), what="tbb::rw_mutex %s: readers asleep in lock_shared while a writer holds the lock; the writer downgrades and keeps the read lock until they got in: the downgrade itself must wake them" % pr))
    L.append(leg("rt-enqueue_prio_limit1", "c02_rt", (2, 3), {"kind": "enqueue_prio_limit1"}, what="max_allowed_parallelism 1 (soft limit 0) and two arenas of different priority: the main thread works inside the high-priority arena (spawned work, no enqueue) and enqueues a task into the low-priority arena, where nobody waits: the mandatory worker must still come and run it"))
    for k, what, b in [("wait_sleep", "external waiter asleep in task_group::wait while a worker finishes the last task", (2, 3)),
                       ("enqueue", "enqueue with nobody waiting; worker spinning", (3, 4)), ("enqueue2", "second enqueue meets a worker that is leaving / going to sleep", (2, 3)),
                       ("enqueue1", "arena with max_concurrency 1 (mandatory worker)", (3, 4)), ("enqueue_limit1", "max_allowed_parallelism 1: soft limit 0, mandatory concurrency", (3, 3)),
                       ("enqueue_gc", "the parallelism limit drops to 1 while the enqueue is in flight", (1, 2)), ("two_arenas", "two arenas with enqueued work compete for one worker", (2, 3)), ("gc_pending", "the parallelism limit drops to 1 while a mandatory request is already pending and unserved (saturated arena); later enqueues into an idle arena and into the saturated one must still run", (1, 2)),
                       ("execute_full", "task_arena::execute with no free slot (delegation + exit monitor)", (1, 2))]:
        L.append(leg("rt-" + k, "c02_rt", b, {"kind": k}, what=what, weight=2.0 if b[0] == 1 else 1.0))
    L.append(leg("rt-execute_handover", "c02_rt", (1, 2), {"kind": "execute_handover"}, what="two threads asleep in execute() of a saturated arena; the freed slot is announced to the one whose functor was already run by the worker: it must pass the announcement on", weight=2.0))
    for name, prm in [("addr-mutex-ba", {"kind": "mutex", "order": "ba", "unlock": "ab"}), ("addr-mutex-ab", {"kind": "mutex", "order": "ab", "unlock": "ba"}), ("addr-mutex-aa", {"kind": "mutex", "order": "ab", "unlock": "ab"}),
                      ("addr-rw-ba", {"kind": "rw", "order": "ba", "unlock": "ab"}), ("addr-rw-ab", {"kind": "rw", "order": "ab", "unlock": "ba"}), ("addr-rw-reader", {"kind": "rw", "order": "ba", "unlock": "ab", "reader": 1})]:
        L.append(leg(name, "c02_addr", (2, 3), prm, what="two mutexes whose addresses share one of the 2048 address-waiter buckets, one sleeper each: unlocking one must wake its own sleeper wherever it stands in the shared wait set"))
    for k in ("wait_sleep", "enqueue", "enqueue2"):
        L.append(leg("rt-%s-asleep" % k, "c02_rt", (2, 3), {"kind": k, "asleep": 1}, what="same, worker asleep when the window opens"))
    # session 4: every C02 leg of these harnesses cost well under a second at the bounds above, so each runs one preemption deeper in both tiers
    # (measured to completion on the unchanged tree; the address-waiter programs are tiny and get +2 / +3)
    for l in L:
        if l["name"] in ("mon-2-all", "mon-2-abort", "mon-2-all-tso", "mon-2-pred-tso", "rt-execute_full", "rt-execute_handover"):
            continue   # tried: these do not complete the deeper bound inside the quick budget, so the step would cover less, not more
        if l["harness"] in ("c02_monitor", "c02_monitor@tso", "c02_rt"):
            l["bound"] = (l["bound"][0] + 1, l["bound"][1] + 1)
        elif l["harness"] == "c02_addr":
            l["bound"] = (l["bound"][0] + 2, l["bound"][1] + 3)
    return L
PROPS["C02"] = {
    "explanation": "Closed 2-4 thread systems in which a lost wake-up is a deadlock: (1) the real concurrent_monitor alone (sleeper prepare_wait / re-check / commit_wait vs "
                   "notifier state change + notify_one/all/pred/abort_all), (2) concurrent_bounded_queue blocking push/pop, (3) tbb::mutex / rw_mutex sleeping paths, (4-6) the real "
                   "scheduler: task_group::wait with the external waiter asleep, task_arena::enqueue with nobody waiting (worker spinning / asleep / leaving, one-slot arena, parallelism "
                   "limit 1, limit change in flight, two arenas and one worker), execute() without a free slot. The main thread blocks on an event only the task signals; "
                   "oracle = deadlock/livelock detector + step horizon (hang).",
    "legs": _c02(),
}

# ------------------------------------------------------------------------------------------------ C04
PROPS["C04"] = {
    "explanation": "White-box on the real thread_data / context lists: external threads emulate 'running a task of context X' and call the real bind_to / "
                   "cancel_group_execution / destructor. Tree R(root) -> P, controls S, Q, I; window = cancel(R) or cancel(P) || bind C beneath P (grand-ancestor path) || bind D "
                   "beneath R (direct path) || second canceller || destroy a sibling || bind E beneath the fresh C || context cancelled before binding. Oracle at quiescence: "
                   "cancelled <=> it or an ancestor was a cancel target; controls untouched; exactly one winner; stays cancelled until reset.",
    "legs": [
        leg("grand", "c04_ctx", (4, 5), {"kind": "grand"}, what="cancel(R) || bind C beneath P"),
        leg("direct", "c04_ctx", (4, 5), {"kind": "direct"}, what="cancel(R) || bind D beneath R"),
        leg("both", "c04_ctx", (3, 4), {"kind": "both"}, what="cancel(R) || bind C beneath P || bind D beneath R"),
        leg("two_cancel", "c04_ctx", (3, 4), {"kind": "two_cancel"}, what="two cancellers of R || bind C beneath P"),
        leg("leaf_cancel", "c04_ctx", (3, 4), {"kind": "leaf_cancel"}, what="two cancellers of a leaf context (no children yet) || bind a first child beneath it: exactly one winner, the child ends up cancelled"),
        leg("fresh_cancel", "c04_ctx", (3, 4), {"kind": "fresh_cancel"}, what="two cancellers of a context that was never bound: exactly one winner"),
        leg("reset_below", "c04_ctx", (2, 3), {"kind": "reset_below"}, what="a descendant is reset while its ancestors stay cancelled; then an unrelated tree is cancelled || a new context is bound beneath the cancelled parent: the reset context must not be marked again"),
        leg("mid", "c04_ctx", (3, 4), {"kind": "mid"}, what="cancel(P) || bind C beneath P || bind D beneath R (D, R stay clean)"),
        leg("mid_reset", "c04_ctx", (3, 4), {"kind": "mid_reset"}, what="same after P.reset(): P was used and reset in an earlier round and keeps its bound children; cancel(P) must still reach them"),
        leg("destroy", "c04_ctx", (3, 4), {"kind": "destroy"}, what="cancel(R) || bind C beneath P || destroy sibling X"),
        leg("deep", "c04_ctx", (3, 4), {"kind": "deep"}, what="cancel(R) || bind C beneath P || bind E beneath C"),
        leg("grand-tso", "c04_ctx@tso", (2, 3), {"kind": "grand"}, flags=("-fp", "-tso"), what="cancel(R) || bind C beneath P under x86-TSO store buffers (epoch / may_have_children / state publication order)"),
        leg("direct-tso", "c04_ctx@tso", (2, 3), {"kind": "direct"}, flags=("-fp", "-tso"), what="cancel(R) || bind D beneath R under store buffers"),
        leg("both-tso", "c04_ctx@tso", (2, 2), {"kind": "both"}, flags=("-fp", "-tso"), what="three threads under store buffers"),
        leg("prebind", "c04_ctx", (3, 3), {"kind": "prebind"}, what="C cancelled before its first binding, then bound beneath a clean parent while cancel(S) propagates"),
    ],
}

# ------------------------------------------------------------------------------------------------ C20
PROPS["C20"] = {
    "explanation": "Real scheduler with ucontext coroutines (stack switches stay on the same OS thread) in task_arena(2) / task_arena(1): a task calls task::suspend; the "
                   "suspend point is resumed by a foreign thread, from inside the callback, by a sibling task, in reverse order for two suspended tasks, or twice in a row. "
                   "Oracle: the continuation runs exactly once, only after resume was called, never on two threads at once; the enclosing wait returns after it; the other "
                   "task of the group runs; deadlock detection.",
    "legs": [
        leg("foreign", "c20_suspend", (2, 3), {"kind": "foreign"}, what="foreign thread resumes as soon as it sees the suspend point (races the stack switch)"),
        leg("foreign-asleep", "c20_suspend", (2, 3), {"kind": "foreign", "asleep": 1}, what="same, worker asleep at the start"),
        leg("callback", "c20_suspend", (2, 3), {"kind": "callback"}, what="resume inside the suspend callback"),
        leg("worker", "c20_suspend", (2, 3), {"kind": "worker"}, what="a sibling task resumes"),
        leg("nested", "c20_suspend", (1, 2), {"kind": "nested"}, what="two suspended tasks resumed in reverse order", weight=2.0),
        leg("arena1", "c20_suspend", (6, 8), {"kind": "arena1"}, what="arena of one slot: owner recall"),
        leg("arena1-late", "c20_suspend", (6, 9), {"kind": "arena1", "late": 1}, what="arena of one slot, the resumer waits until the suspending thread has gone to sleep (late resume must still wake it)"),
        leg("foreign-late", "c20_suspend", (1, 2), {"kind": "foreign", "late": 1}, what="late resume with main and worker asleep", weight=2.0),
        leg("nested-late", "c20_suspend", (1, 2), {"kind": "nested", "late": 1}, what="two suspended tasks, late resume in reverse order", weight=2.0),
        leg("iso_wait-late", "c20_suspend", (2, 3), {"kind": "iso_wait", "late": 1}, what="one-slot arena: the only thread waits inside an isolated region for a group whose task is suspended; a foreign thread resumes late: the isolated waiter must pick up the resume request"),
        leg("iso_wait", "c20_suspend", (2, 3), {"kind": "iso_wait"}, what="same, resume races the suspension"),
        leg("iso_then_plain", "c20_suspend", (1, 2), {"kind": "iso_then_plain"}, what="one thread: a suspension inside an isolated region creates the coroutine the arena caches; later plain suspensions reuse it and need the suspended thread to run a freshly spawned task (which calls resume) itself"),
        leg("critical-late", "c20_suspend", (2, 3), {"kind": "critical", "late": 1}, what="suspension inside a critical task (flow-graph node with a priority) in a one-slot arena; the foreign thread resumes when the arena's only thread sleeps (resume task in the critical stream)"),
        leg("critical", "c20_suspend", (2, 3), {"kind": "critical"}, what="same, resume races the suspension"),
        leg("recall", "c20_suspend", (0, 1), {"kind": "recall"}, what="owner recall: the worker continues the main thread's outermost stack after a resume, the coroutine cache is emptied by a third suspension, the wait completes on the worker: it must leave through a fresh coroutine and still recall the owner", weight=3.0),
        leg("twice", "c20_suspend", (1, 2), {"kind": "twice"}, what="the same task suspends twice", weight=2.0),
    ],
}

# ------------------------------------------------------------------------------------------------ C16
PROPS["C16"] = {
    "explanation": "(1) Explicit-state BFS over the real market/arena objects (3 arenas, priorities 0/1/1): events are the protocol-level demand changes of advertise_new_work / "
                   "out_of_work / nested arenas plus set_active_num_workers(L in {0,1,2,4}); the reachable state space saturates (864 canonical states) and every state satisfies the "
                   "allotment invariants. (2) Real scheduler: task_arena(2,1) with three external entrants + enqueue (slot uniqueness, index < max_concurrency, reserved slots, "
                   "concurrency bound), task_arena(1) incl. the mandatory worker, observer entry/exit pairing, isolation, global_control limits 1..3.",
    "legs": [
        leg("allotment-bfs", "c16_allot", (8, 12), {}, flags=(), what="BFS over the real market: all reachable demand/limit states of three arenas"),
        leg("rt-slots", "c16_rt", (1, 2), {"kind": "slots"}, what="task_arena(2,1): two external entrants + main execute + enqueue", weight=3.0),
        leg("rt-arena1", "c16_rt", (1, 2), {"kind": "arena1"}, what="task_arena(1): three external threads call execute", weight=2.0),
        leg("rt-enqueue1", "c16_rt", (6, 8), {"kind": "enqueue1"}, what="task_arena(1) with enqueued work: the single extra worker"),
        leg("rt-observer", "c16_rt", (1, 2), {"kind": "observer"}, what="observer entry/exit pairing on every thread", weight=3.0),
        leg("rt-isolate", "c16_rt", (2, 3), {"kind": "isolate"}, what="waiter inside isolate never runs outer tasks"),
        leg("rt-gc_isolate", "c16_rt", (2, 3), {"kind": "gc_isolate", "L": 1}, what="max_allowed_parallelism 1, nothing enqueued: an isolated waiter skips foreign tasks in its pool (the 'wakeup' advertisement) - still no worker may run user work"),
        leg("rt-gc_resume", "c16_rt", (4, 6), {"kind": "gc_resume", "L": 1}, what="max_allowed_parallelism 1: task::resume from a foreign thread (another 'wakeup' site) - still no worker may run user work"),
        leg("rt-isolate_nested", "c16_rt", (1, 2), {"kind": "isolate_nested"}, what="inside scope S, after a nested isolate scope returned, the thread waits for a task of S that runs on the worker while its pool holds a task spawned outside S", weight=2.0),
        leg("rt-isolate_wait", "c16_rt", (1, 2), {"kind": "isolate_nested", "nested": 0}, what="same without the nested scope", weight=2.0),
        leg("rt-isolate_proxy", "c16_rt", (1, 2), {"kind": "isolate_proxy"}, what="two workers: one holds a stolen task of the isolation scope, the other runs a non-isolated parallel_for with static_partitioner (affinity proxies in its pool) while the scope owner waits inside isolate with nothing to do: it must not run a chunk that arrives as a proxy", weight=3.0),
        leg("mailbox-seq", "c16_mailbox", (0, 0), {}, flags=(), what="isolation on the mailbox side: every sequence of up to 3+1 mailed proxies with isolation tags none / 1 / 2 and up to 4 pops by takers with isolation none / 1 / 2 on one real mail_outbox: a taker inside a scope gets the oldest proxy of its own scope or nothing, nothing is lost or handed out twice"),
        leg("rt-observer_slot", "c16_rt", (2, 3), {"kind": "observer_slot"}, what="task_arena(2,2): the main thread stays in slot 0 while two application threads pass through execute(); an observer with a slow on_scheduler_exit counts a thread as inside from its entry callback to the end of its exit callback: the slot index must not be handed to the next thread before that"),
        leg("rt-isolate_critical", "c16_rt", (1, 2), {"kind": "isolate_critical"}, what="an isolated waiter with nothing to do must not run a critical task (priority flow-graph node) that another application thread submitted outside the scope", weight=2.0),
        leg("rt-priority", "c16_rt", (1, 2), {"kind": "priority"}, what="one worker, a low-priority arena whose loop chunks the worker holds in its own pool, and a high-priority arena that receives enqueued work: the worker must be handed over instead of draining its low-priority pool", weight=3.0),
        leg("rt-full_arena", "c16_rt", (1, 2), {"kind": "full_arena"}, what="one worker; task_arena A(2,0) is filled by two application threads, one of which then spawns a task and parks; a task enqueued into arena B(2,1) must get the worker (A has no slot for it and must not keep asking for it)", weight=2.0),
        leg("rt-full_arena_r1", "c16_rt", (1, 2), {"kind": "full_arena", "resA": 1}, what="same with A(2,1): one application thread in the reserved slot, the other in the first non-reserved slot", weight=2.0),
        leg("rt-gc1", "c16_rt", (2, 3), {"kind": "gc", "L": 1}, what="max_allowed_parallelism 1: no worker runs user work"),
        leg("rt-gc2", "c16_rt", (2, 3), {"kind": "gc", "L": 2}, what="max_allowed_parallelism 2: at most one worker"),
        leg("rt-gc3", "c16_rt", (2, 2), {"kind": "gc", "L": 3}, what="max_allowed_parallelism 3: at most two workers"),
    ],
}

# ------------------------------------------------------------------------------------------------ C03
def _c03():
    L = []
    progs = [("tg", "task_group with three bodies, then reuse", [0, 1, 2, 5, 7]), ("nested", "nested task_groups", [0, 1, 2, 6]),
             ("pfor", "parallel_for simple_partitioner over 4 elements, then a second loop", [0, 1, 4, 10]), ("pfor_auto", "parallel_for(0,5) auto_partitioner", [1, 16]),
             ("reduce_body", "parallel_reduce: the body throws", [1, 4]), ("reduce_join", "parallel_reduce: the join callback throws", [0, 1, 2]),
             ("reduce_split", "parallel_reduce: the splitting constructor throws", [1, 2]), ("foreach", "parallel_for_each with feeder", [1, 4, 9]),
             ("invoke", "parallel_invoke of three functions", [1, 6]), ("pipeline", "3-stage pipeline, 3 items, 2 tokens", [0, 1, 2, 16]),
             ("graph", "function_node graph, wait_for_all, reset and reuse", [0, 1, 2, 4]), ("execute", "task_arena::execute of a nested one-slot arena", [1, 2]),
             ("pipeline_obj", "3-stage pipeline whose items travel in library-allocated tokens (4 items, 3 tokens): every item is destroyed exactly once also when a filter throws", [0, 2, 4, 8, 32, 64]),
             ("same_arena", "bodies that call task_arena::execute on the arena they already run in (directly / through attach) and throw afterwards; then a parallel_for whose bodies do the same", [0, 1, 2, 4, 3])]
    # one sweep leg per program kind: its parameter sets (fault masks / positions) are explored four at a time, each exhaustively within the bound
    for k, what, masks in progs:
        b = (2, 3) if k not in ("graph", "pipeline", "pipeline_obj", "foreach") else (1, 2)
        L.append(sweep(k, "c03_rt", b, [{"mask": m} for m in masks], {"kind": k}, what="%s; throwing invocations: masks %s" % (what, masks), tiers=("quick", "thorough"), weight=len(masks) / 3.0))
    L.append(sweep("foreach_input", "c03_rt", (1, 2), [{"copythrow": ct} for ct in (1, 2, 3, 5)], {"kind": "foreach_input", "mask": 0}, what="parallel_for_each over input iterators (items are copied into blocks by the library): the k-th item copy throws (k = 1, 2, 3, 5); the call must rethrow it and destroy every copy", tiers=("quick", "thorough")))
    L.append(sweep("pfor_split", "c03_rt", (1, 2), [{"part": p, "mask": m} for p in (0, 1, 2) for m in (1, 2)], {"kind": "pfor_split"}, what="parallel_for (simple / auto / static partitioner): the first / second invocation of the Range's splitting constructor throws", tiers=("quick", "thorough")))
    L.append(sweep("pfor_bodycopy", "c03_rt", (1, 2), [{"part": p, "mask": m} for p in (0, 1) for m in (2, 4)], {"kind": "pfor_bodycopy"}, what="parallel_for (simple / auto partitioner): the second / third copy of the Body throws", tiers=("quick", "thorough")))
    L.append(leg("same_arena-m0-pfor", "c03_rt", (2, 3), {"kind": "same_arena", "mask": 0, "mask2": 2}, what="same-arena execute inside parallel_for bodies, the second body throws"))
    return L
PROPS["C03"] = {
    "explanation": "Real scheduler with one worker: task_group, nested groups, parallel_for, parallel_reduce (throw in body / join / splitting constructor), parallel_for_each with feeder, "
                   "parallel_invoke, parallel_pipeline, a flow graph and task_arena::execute; the i-th body invocation throws for every i in a leg-chosen mask (fault enumeration) and all "
                   "schedules within the bound are explored. Oracle: the waiting call throws exactly one exception that was thrown, on the caller, while no body is live and none starts "
                   "later; nothing is swallowed; the group / graph is reusable; copies of body objects are destroyed; deadlock detection (a lost completion is a hang).",
    "legs": _c03(),
}

# ------------------------------------------------------------------------------------------------ C17
PROPS["C17"] = {
    "explanation": "Sequential exhaustive legs on the real tbbmalloc objects with a shadow heap (disjointness, alignment, msize, calloc zero, realloc prefix, patterns of all live blocks "
                   "intact after every call): every size 0..70399, +-2 around every power of two up to 2^34 and the slab/large/huge thresholds, every power-of-two alignment 1..2^30 plus "
                   "invalid ones x 7 sizes through malloc/calloc/realloc/aligned_*/posix_memalign, and ALL operation sequences of length depth over a 12-symbol alphabet, each on a fresh "
                   "memory pool. Thread legs under the controlled scheduler: foreign free vs owner malloc (public free list vs privatisation), thread shutdown with live blocks (orphaned "
                   "slabs) vs adoption, last object of a slab, large-object cache.",
    "rule": "single-threaded legs: one case = one size block / boundary size / (alignment,size) pair / operation sequence, all enumerated; thread legs: every schedule within the deviation bound; "
            "distinct = distinct outcome strings",
    "legs": [
        leg("sweep+seq5q", "c17_seq", (0, 0), {"depth": 5}, flags=(), what="size/alignment sweep + all 12^5 operation sequences on fresh pools", tiers=("quick",)),
        leg("sweep+seq6", "c17_seq", (0, 0), {"depth": 6}, flags=(), what="size/alignment sweep + all 12^6 operation sequences on fresh pools", tiers=("thorough",), weight=4.0),
        leg("mt-foreign", "c17_mt", (6, 8), {"kind": "foreign", "size": 48}, what="foreign free vs owner malloc, 48-byte class"),
        leg("mt-foreign8", "c17_mt", (6, 8), {"kind": "foreign", "size": 8}, what="8-byte class"),
        leg("mt-foreign-fit", "c17_mt", (5, 7), {"kind": "foreign", "size": 3000}, what="fitting-size class"),
        leg("mt-foreign-aligned", "c17_mt", (4, 6), {"kind": "foreign", "size": 1500, "align": 256, "after": 1792, "nown": 4}, what="blocks from scalable_aligned_malloc(1500, 256) (user address inside a 1792-byte slot) freed by another thread while the owner allocates full-slot objects"),
        leg("mt-foreign-aligned2", "c17_mt", (4, 6), {"kind": "foreign", "size": 3000, "align": 1024, "after": 4032, "nown": 3}, what="same for the 4032-byte fitting bin, alignment 1024"),
        leg("mt-foreign-aligned3", "c17_mt", (4, 6), {"kind": "foreign", "size": 2000, "align": 128, "after": 2688, "nown": 4}, what="same for the 2688-byte bin, alignment 128"),
        leg("mt-clean", "c17_mt", (3, 4), {"kind": "clean", "size": 64, "nown": 3}, what="the owner runs scalable_allocation_command(TBBMALLOC_CLEAN_THREAD_BUFFERS), mallocs, runs TBBMALLOC_CLEAN_ALL_BUFFERS, mallocs, while another thread frees three of its blocks (mailbox / public free list vs the clean-up) and mallocs"),
        leg("mt-clean-2slabs", "c17_mt", (2, 3), {"kind": "clean", "size": 8000, "nown": 3}, what="same with one object per slab (three slabs in the mailbox)"),
        leg("mt-exit", "c17_mt", (3, 4), {"kind": "exit", "size": 48}, what="owner thread shuts down with live blocks; another thread frees them and allocates (orphan adoption)"),
        leg("mt-last", "c17_mt", (5, 7), {"kind": "last", "size": 8000}, what="foreign free of the only object of a slab vs owner malloc"),
        leg("mt-large", "c17_mt", (3, 4), {"kind": "large", "size": 100000}, what="large objects: foreign free + malloc through the large-object cache"),
    ],
}
# ------------------------------------------------------------------------------------------------ C18
PROPS["C18"] = {
    "explanation": "Fault enumeration: every raw memory request (mmap of the default pool by link-time interposition, the raw callback of memory pools) is an explorer choice succeed/fail, so "
                   "deviation bound b enumerates every pattern of at most b refused requests in each history (histories have 5-13 raw requests; quick: b = 4-7, thorough: b = 6-10, which is every subset for the default-pool, fixed-pool and C++-allocator histories - their execution counts no longer grow with b - and every pattern of up to 7-9 refusals for the pool histories); "
                   "every execution is a fresh process. Oracle: the entry point reports failure only if a request was refused, live blocks stay intact, allocation works again afterwards, "
                   "pool blocks lie inside the pool's own raw regions, pool_identify is right, a fixed pool calls the raw allocator once, reset/destroy return every region exactly once "
                   "and never a region of another pool; extreme sizes/alignments/overflowing calloc are refused; C++ allocators throw bad_alloc.",
    "rule": "one execution per pattern of refused raw requests (<= bound) per history; distinct = distinct (raw calls, refused, failures) outcomes",
    "legs": [
        leg("default-pool", "c18_faults", (7, 10), {"kind": "default"}, flags=(), what="default pool history: slabs, fitting, large, aligned, calloc, huge, posix_memalign, realloc"),
        leg("memory-pool", "c18_faults", (5, 7), {"kind": "pool"}, flags=(), what="memory pool with growing raw memory, then reset and destroy"),
        leg("fixed-pool", "c18_faults", (2, 2), {"kind": "fixed"}, flags=(), what="fixed pool: buffer handed out once"),
        leg("pool-orphan", "c18_faults", (5, 8), {"kind": "poolorphan"}, flags=(), what="pool whose slabs were orphaned by a finished thread and emptied by another thread; then every pattern of refused raw requests during a history (hard cache cleanup of orphaned blocks)"),
        leg("pool-orphan-live", "c18_faults", (5, 8), {"kind": "poolorphan", "keep": 5}, flags=(), what="same, five blocks of the finished thread stay live and must stay intact"),
        leg("pool-reset-tls", "c18_faults", (5, 8), {"kind": "poolreset_tls"}, flags=(), what="two threads used the pool and ended, then pool_reset; every pattern of refused raw requests during the history that follows; then a new thread and the main thread allocate again: no block may share memory with anything the allocator still uses (contents intact, no overlap, inside the raw regions)"),
        leg("pool-reset-tls-live", "c18_faults", (5, 8), {"kind": "poolreset_tls", "threads": 1, "free": 0}, flags=(), what="same with one finished thread whose block was still live at the reset (the reset discards it)"),
        leg("two-pools", "c18_faults", (6, 9), {"kind": "twopools"}, flags=(), what="two pools with live blocks; destroying one must not touch the other"),
        leg("backref-exhaust", "c18_faults", (1, 1), {"kind": "backref"}, flags=("-exec-timeout", "10", "-horizon", "10000000"), what="8400 live large objects exhaust the back-reference table; from an explorer-chosen raw request on, every request is refused (memory stays exhausted): clean failure, no hang, live blocks intact, recovery", weight=2.0),
        leg("backref-exhaust-pool", "c18_faults", (2, 2), {"kind": "poolbackref"}, flags=("-exec-timeout", "15", "-horizon", "10000000"), what="the objects come from a memory pool whose raw callback always succeeds while the default pool (which holds the back-reference table) is drained and out of memory; 0-2 chunks given back by choice", weight=2.0),
        leg("extreme-args", "c18_faults", (0, 0), {"kind": "extreme"}, flags=(), what="sizes near SIZE_MAX, alignments up to 2^63, overflowing calloc, invalid alignments"),
        leg("cxx-allocators", "c18_faults", (4, 6), {"kind": "cxx"}, flags=(), what="scalable_allocator::allocate throws std::bad_alloc"),
    ],
}

# ------------------------------------------------------------------------------------------------ C05 / C06 (vtbb)
VTBB_RULE = ("one case = one input (range size, grain, partitioner, number of virtual workers, ...); for every case all task-level schedules of the abstract scheduler "
             "(which worker pops / steals / takes mail next, optional interleaving inside bodies) with at most `bound` deviations from the serial order are executed on the real "
             "algorithm templates; distinct = distinct outcome strings (chunk lists, steal counts, terms)")
PROPS["C05"] = {
    "explanation": "The real parallel_for / partitioner / range templates run on the abstract task scheduler vtbb (engine/vtbb.cpp: P virtual workers, LIFO pop, FIFO steal, affinity mail; "
                   "every 'who takes which task next' is an explorer choice). Inputs: blocked_range(0,n,g) for all n, g, 4 partitioners (affinity twice), P=1..3; 2d/3d/nd ranges; huge "
                   "ranges up to 2^64-3 whose chunks must tile the range; strided loops incl. index types at their limits; parallel_for_each (random-access / forward iterators, feeder); "
                   "parallel_invoke 2..10; an indivisible range. Oracle: per-element count exactly once, chunks non-empty/disjoint/covering, simple_partitioner chunk-size bound. "
                   "A leg on the real scheduler (one real worker) repeats the exactly-once oracle for small loops.",
    "rule": VTBB_RULE,
    "legs": [
        leg("pfor-1d", "c05_pfor", (3, 3), {"nmax": 24, "gmax": 4, "pmax": 3}, flags=(), what="blocked_range(0,n,g): n<=24, g<=4, 4 partitioners, P<=3", weight=4.0),
        leg("pfor-1d-wide", "c05_pfor", (2, 2), {"nmax": 64, "gmax": 9, "pmax": 4}, flags=(), what="blocked_range(0,n,g): n<=64, g<=9, 4 partitioners, P<=4", tiers=("thorough",), weight=3.0),
        leg("pfor-1d-32", "c05_pfor", (3, 3), {"nmax": 32, "gmax": 5, "pmax": 3}, flags=(), what="n<=32, g<=5 at three deviations", tiers=("thorough",), weight=8.0),
        leg("pfor-1d-deep", "c05_pfor", (4, 4), {"nmax": 12, "gmax": 3, "pmax": 3}, flags=(), what="n<=12 at four deviations", tiers=("thorough",), weight=2.0),
        leg("pfor-1d-nested", "c05_pfor", (2, 3), {"nmax": 24, "gmax": 4, "pmax": 3, "nested": 1}, flags=(), what="n<=24, g<=4: in addition every body may re-enter the dispatcher on its own worker (nested wait inside the body)", weight=2.0),
        leg("other-spaces-nested", "c05_more", (1, 2), {"nested": 1}, flags=(), what="other iteration spaces with bodies that may re-enter the dispatcher"),
        leg("range-pool-seq9", "c05_rangevec", (0, 0), {"depth": 9}, flags=(), what="the partitioners' range pool (range_vector<Range,8>: ring indices, relative depths) against a deque model: every sequence of length 1..9 over split_to_fill(3|8|16) / pop_back / pop_front, two ranges", tiers=("quick",)),
        leg("range-pool-seq11", "c05_rangevec", (0, 0), {"depth": 11}, flags=(), what="same, every sequence of length 1..11", tiers=("thorough",), weight=2.0),
        leg("other-spaces", "c05_more", (2, 3), {}, flags=(), what="2d/3d/nd, huge ranges, strided loops, parallel_for_each, parallel_invoke, indivisible range", weight=3.0),
        leg("rt-pfor-simple", "c01_rt", (2, 3), {"kind": "pfor"}, flags=("-fp", "-hb"), what="real scheduler: parallel_for over 4 elements, simple_partitioner"),
        leg("rt-pfor-auto", "c01_rt", (2, 3), {"kind": "pfor_auto"}, flags=("-fp", "-hb"), what="real scheduler: parallel_for(0,5), auto_partitioner"),
        leg("rt-pfor-affinity", "c01_rt", (2, 3), {"kind": "pfor_aff"}, flags=("-fp", "-hb"), what="real scheduler: affinity_partitioner, second run"),
    ],
}
PROPS["C06"] = {
    "explanation": "The real parallel_reduce / parallel_deterministic_reduce / parallel_scan / parallel_sort templates on the abstract scheduler vtbb. reduce: operands in the free monoid "
                   "(lists, concatenation) so any reorder/loss/duplication shows, functional and Body form, 4 partitioners, n<=13, g<=3, P<=3, split bodies destroyed; deterministic reduce: "
                   "the recorded split/join term must be the same for every schedule and every P; scan: final pass once per element with the sequential prefix; sort: every inversion "
                   "position for n=500..520 (pre-test + partition path) and other shapes, all permutations of <=6 keys, all 3-valued sequences of length <=6.",
    "rule": VTBB_RULE,
    "legs": [
        leg("reduce-scan-nested", "c06_reduce", (2, 3), {"nested": 1}, flags=(), what="same; in addition every body may re-enter the dispatcher on its own worker (a nested wait inside the body takes the worker's own not yet stolen sibling task, mail, or steals)", weight=2.0),
        leg("reduce-scan", "c06_reduce", (3, 4), {}, flags=(), what="parallel_reduce (2 forms), parallel_deterministic_reduce, parallel_scan (2 forms)", weight=2.0),
        leg("sort", "c06_sort", (2, 3), {}, flags=(), what="parallel_sort: 29025 inputs around the 500-element cutoff and exhaustive small inputs", weight=3.0),
        leg("rt-reduce", "c03_rt", (2, 3), {"kind": "reduce_body", "mask": 0}, flags=("-fp",), what="real scheduler: parallel_reduce over 4 elements (no fault), completes with every body exactly once"),
    ],
}

# ------------------------------------------------------------------------------------------------ C07
def _c07():
    L = [
        leg("vtbb-modes3", "c07_pipe", (4, 6), {"lmax": 3, "tmax": 3, "imax": 4, "pmax": 3}, flags=(), what="all 39 filter-mode sequences of length 1..3 x tokens 1..3 x items 0..4 x P 2..3 x item type (int in a void* / allocated object)", weight=2.0),
        leg("vtbb-modes4", "c07_pipe", (3, 4), {"lmax": 4, "tmax": 4, "imax": 5, "pmax": 3}, flags=(), what="all 120 filter-mode sequences of length 1..4 x tokens 1..4 x items 0..5", weight=2.0),
        leg("vtbb-modes3-nested", "c07_pipe", (3, 4), {"lmax": 3, "tmax": 3, "imax": 4, "pmax": 3, "nested": 1}, flags=(), what="filter-mode sequences of length 1..3 where every filter body may re-enter the dispatcher on its own worker (a nested wait inside a filter runs another stage task)", weight=2.0),
        leg("vtbb-grow-far", "c07_pipe", (1, 2), {"grow": 2}, flags=(), what="items 0..m-1 (m=15..20, P=m+2 virtual workers) wait inside a filter until item m has passed: the first token parked at the next serial filter is >= 16 ahead, so the 4-slot ring must grow by several doublings at once", weight=2.0),
        leg("vtbb-grow", "c07_pipe", (3, 4), {"grow": 1}, flags=(), what="item 0 stalled inside a filter while 5-8 other stage tasks run: >= 4 tokens parked behind it, input_buffer::grow relocates parked items (tokens 5..7, items 6/9)", weight=2.0),
    ]
    rt = [("ipo", {}, (2, 3)), ("pio", {}, (2, 3)), ("ipi", {}, (2, 3)), ("oo", {}, (2, 3)), ("p", {}, (2, 3)), ("pp", {}, (2, 3)), ("ipi", {"big": 1}, (2, 3)), ("ipo", {"asleep": 1}, (2, 3)),
          ("ipo", {"tokens": 1}, (2, 3)), ("ipi", {"tokens": 3, "items": 4}, (2, 2)), ("iio", {"tokens": 3, "items": 4}, (2, 2)), ("ipi", {"P": 3}, (1, 2))]
    for mk in (0, 4, 64):
        L.append(leg("rt-objects-m%d" % mk, "c03_rt", (2, 3), {"kind": "pipeline_obj", "mask": mk}, flags=("-fp",), what="real scheduler: items that travel in library-allocated tokens pass every filter and are destroyed exactly once, also when the %s" % ("pipeline completes" if mk == 0 else "filter invocation(s) of mask %d throw" % mk)))
    for m, extra, b in rt:
        prm = {"modes": m}; prm.update(extra)
        name = "rt-" + m + "".join("-%s%s" % (k, v) for k, v in extra.items())
        L.append(leg(name, "c07_rt", b, prm, what="real scheduler: filters %s %s (2 tokens, 3 items unless stated; item 0 is a null void* for int items)" % (m, extra or ""), weight=3.0 if extra.get("P") == 3 else 1.0))
    return L
PROPS["C07"] = {
    "explanation": "The real src/tbb/parallel_pipeline.cpp and filter templates. (1) On the abstract scheduler vtbb: every filter-mode sequence up to length 3 (4 in the second leg) x token limits x item "
                   "counts x virtual workers x two item representations; each filter body contains a point where another virtual worker may run a whole stage task, so invocations overlap, and "
                   "which worker pops/steals next is an explorer choice; 'stalled item' variants park >= 4 tokens so that input_buffer::grow runs with parked items. (2) On the real scheduler with "
                   "one or two real workers under vsched: all thread interleavings within the bound of token counter, input_buffer lock, parking/waking at serial filters, recycling of stage tasks. "
                   "Oracle (both): each item through each filter exactly once and only after the previous filter; every serial_in_order filter sees the order of the first one (checked at every "
                   "invocation); a serial filter never has two live invocations; items in flight <= max_number_of_live_tokens at every production; at return: end of input was signalled, all items "
                   "left the last filter, nothing runs afterwards, item objects destroyed exactly once, no task left or leaked.",
    "rule": VTBB_RULE + "; rt legs: every schedule within the deviation bound on the real scheduler",
    "legs": _c07(),
}

# ------------------------------------------------------------------------------------------------ C14 / C15 (flow graph)
def _c14():
    L = [leg("vtbb-graphs", "c14_flow", (4, 6), {}, flags=(), what="888 graphs: lightweight nodes whose result nobody takes (sink / busy rejecting successor), chains with 4 buffer policies x concurrency limits, buffering senders -> rejecting nodes, fan-out/fan-in, limiter feedback cycle, "
             "continue_node, multifunction_node, input_node, async_node with a foreign completion, exception / cancel at every body invocation", weight=3.0)]
    L.append(leg("vtbb-graphs-nested", "c14_flow", (3, 5), {"nested": 1}, flags=(), what="the same 888 graphs; in addition every task-based body may re-enter the dispatcher on its own worker (a nested wait inside the body runs another graph task)", weight=2.0))
    for k, b, what in [("ext2", (1, 2), "two external threads + main try_put into one serial queueing function_node"), ("ext2rej", (1, 2), "same, rejecting node: a rejected put is reported, an accepted one processed once"),
                       ("pull", (1, 2), "queue_node -> rejecting serial node, puts from two threads: push/pull edge switching"), ("pull2", (1, 2), "queue_node -> two rejecting serial nodes"),
                       ("bufsplit", (1, 2), "buffer_node -> two rejecting nodes: each message to exactly one"), ("async", (2, 3), "async_node completed by a foreign thread: wait_for_all waits for release_wait")]:
        L.append(leg("rt-" + k, "c14_rt", b, {"kind": k}, what="real scheduler: " + what, weight=2.0))
    L.append(leg("nodes-ow", "c15_nodes", (2, 3), {"only": "ow"}, flags=(), what="overwrite_node / write_once_node behind a broadcast_node: every sequence of 5 operations over put / add a successor / try_get / clear; an edge survives a refused message, every accepted value reaches every present and future successor"))
    L.append(leg("nodes-limiter", "c15_nodes", (2, 3), {"only": "limiter"}, flags=(), what="limiter_node honours its threshold: every program of 3-5 steps over {put into the queue in front, direct try_put, decrement} incl. decrements that arrive while nothing is outstanding; never more than threshold forwarded messages without a decrement"))
    L.append(leg("nodes-limiterint", "c15_nodes", (1, 2), {"only": "limiterint"}, flags=(), what="limiter_node<T, int>: integral decrements of 1-2 incl. surplus and negative values", weight=2.0))
    L.append(leg("buffers-seq6", "c15_nodes", (1, 2), {"only": "seq", "depth": 6}, flags=(), what="message conservation at the buffering nodes: all legal operation sequences of length 6 over {put, try_get, try_reserve, try_release, try_consume, attach an accepting successor} on buffer/queue/priority_queue/sequencer nodes from 0, 3, 4, 7, 8 buffered items (nothing lost or duplicated, a kept message is offered again, wait_for_all leaves nothing in transit)", weight=2.0))
    L.append(leg("buffers-seq7", "c15_nodes", (0, 1), {"only": "seq", "depth": 7, "prefills": "0.4"}, flags=(), what="same, length 7 from 0 and 4 buffered items (ring growth while an item is reserved)", tiers=("quick",)))
    L.append(leg("buffers-seq9", "c15_nodes", (1, 1), {"only": "seq", "depth": 9, "prefills": "0.4"}, flags=(), what="same, length 9", tiers=("thorough",), weight=3.0))
    for k, b, what in [("cont2", (1, 2), "continue_node with two predecessors signalled from two threads"), ("mfn", (1, 2), "multifunction_node fed by two threads, routing to two ports"),
                       ("bcast", (1, 2), "broadcast_node put from two threads into two successors"), ("inputn", (1, 2), "input_node in front of a rejecting serial node while another thread puts into that node")]:
        L.append(leg("rt-" + k, "c14_rt", b, {"kind": k}, what="real scheduler: " + what))
    L.append(leg("rt-pull-asleep", "c14_rt", (1, 2), {"kind": "pull", "asleep": 1}, what="real scheduler: pull with the worker asleep at the start", weight=2.0))
    return L
PROPS["C14"] = {
    "explanation": "The real flow-graph templates. (1) On the abstract scheduler vtbb: 672 small graphs (chains with queueing / rejecting / lightweight policies and concurrency limits 1, 2, unlimited; "
                   "buffer / queue / priority_queue / sequencer senders in front of rejecting nodes; broadcast, function and buffer fan-out with fan-in; queue -> limiter -> node -> decrementer cycle; "
                   "continue_node with two predecessors; multifunction_node ports; input_node in front of rejecting / queueing nodes; async_node whose gateway is completed by a foreign activity; "
                   "a body that throws or calls cancel at the i-th invocation) x message counts x virtual workers; every node body contains a point at which another virtual worker may run a whole "
                   "graph task, external try_puts are interleaved with task steps, and which worker takes which task is an explorer choice. (2) On the real scheduler with one real worker: external "
                   "threads call try_put concurrently with the graph's tasks (aggregator batches, push/pull edge switching, forwarder vs try_put for the last concurrency slot, async gateway). "
                   "Oracle: per node and message id exactly-once ledger (accepted = try_put returned true), rejected puts reported and never processed, live bodies <= concurrency limit, at the "
                   "return of wait_for_all no body live / no task left or leaked / every reserve_wait released, no body (task) starts after cancellation, wait_for_all rethrows the body's exception. "
                   "Bodies of lightweight nodes run inside the sender's task by design, so the no-start-after-cancel clause is checked for task-based nodes only.",
    "rule": VTBB_RULE + "; rt legs: every schedule within the deviation bound on the real scheduler",
    "legs": _c14(),
}
def _c15():
    L = [leg("vtbb-seqfar", "c15_nodes", (1, 2), {"only": "seqfar"}, flags=(), what="sequencer_node whose buffer grows by several doublings at once: 0/4/8/12 items already forwarded, 1-3 items waiting behind a missing head, an item 5..70 positions ahead, gaps filled in two scattered orders; the successor receives exactly 0,1,2,..."),
         leg("vtbb-nodes", "c15_nodes", (3, 4), {"skip": "seq,seqfar"}, flags=(), what="sequencer arrival permutations; join_node queueing/key_matching/reserving with every arrival interleaving; limiter programs over {queued put, direct put, decrement} "
             "with a receiver that rejects by choice; overwrite/write_once op sequences; split/indexer/broadcast routing", weight=2.0),
         leg("vtbb-seq6", "c15_nodes", (1, 2), {"only": "seq", "depth": 6}, flags=(), what="buffer/queue/priority_queue/sequencer nodes: all legal operation sequences of length 6 over {put, try_get, try_reserve, try_release, try_consume, "
             "attach an accepting successor}, started from 0, 3, 4, 7 and 8 buffered items (capacity boundaries), forwarder tasks at explorer-chosen moments", weight=3.0),
         leg("vtbb-seq8", "c15_nodes", (0, 1), {"only": "seq", "depth": 8, "prefills": "0.4"}, flags=(), what="all operation sequences of length 8 from 0 and 4 buffered items (ring wrap and growth of the item buffer)", tiers=("quick",), weight=3.0),
         leg("vtbb-seq9", "c15_nodes", (1, 1), {"only": "seq", "depth": 9, "prefills": "0.4"}, flags=(), what="all operation sequences of length 9 from 0 and 4 buffered items", tiers=("thorough",), weight=4.0)]
    for k, b, what in [("limiter", (2, 3), "queue -> limiter(1) -> node -> decrementer, three messages"), ("limiter_ext", (1, 2), "same with a second putting thread"),
                       ("limiter_push", (2, 3), "a direct put is in flight inside a slow lightweight successor while the limiter's forward task serves a queued pull-mode predecessor"),
                       ("joinq", (1, 2), "queueing join_node, the two ports fed by two threads"), ("joink", (1, 2), "key_matching join_node, keys arrive in opposite orders"),
                       ("joinr", (1, 2), "reserving join_node behind two queue_nodes"), ("seq", (1, 2), "sequencer_node fed out of order by two threads"),
                       ("wonce", (2, 3), "write_once_node: two threads put the first value at once; one successor before, one after"), ("owrite", (2, 3), "overwrite_node written by two threads at once"),
                       ("ow_register", (2, 3), "overwrite_node holding a value: one thread attaches a successor while another puts a newer value; the new successor must end up with the latest value")]:
        L.append(leg("rt-" + k, "c14_rt", b, {"kind": k}, what="real scheduler: " + what, weight=2.0))
    return L
PROPS["C15"] = {
    "explanation": "(1) Sequential exhaustive + task-level schedules on vtbb: buffer_node, queue_node, priority_queue_node and sequencer_node are driven by every legal sequence of put / try_get / try_reserve / "
                   "try_release / try_consume up to the stated length against a reference model (nothing lost or handed out twice, FIFO, highest priority first, sequence order with duplicates and stale tags "
                   "rejected, a reserved item is never handed to another consumer), forwarder tasks running at explorer-chosen moments; sequencer_node with every arrival permutation; join_node with every "
                   "interleaving of the per-port arrivals (queueing: i-th tuple = i-th message of every port; key_matching: equal keys, each accepted message used once, min(count) tuples per key, rejected "
                   "duplicates leave the pending message intact; reserving: inputs consumed only for complete tuples, the rest stays queued) and a successor that rejects; limiter_node with all put/decrement "
                   "programs and a receiver that rejects by choice (forwarded - decremented <= threshold at every forward, nothing lost); overwrite_node / write_once_node with successors added before, between "
                   "and after the puts; split_node, indexer_node, broadcast_node routing. (2) The same contracts on the real scheduler with the ports fed by two threads.",
    "rule": VTBB_RULE + "; rt legs: every schedule within the deviation bound on the real scheduler",
    "legs": _c15(),
}

# properties whose thorough tier contains program sweeps get a longer wall-clock budget (a run that reaches it stops with exhaustive=false)
for _p in ("C08", "C09", "C10", "C11", "C12", "C13"):
    PROPS[_p]["budget"] = {"thorough": 1500.0}

# additions of the third session, appended to the explanations (MANIFEST level_claimed.text and evidence)
_EXTRA = {
    "C01": " (a2) single thread, EVERY operation sequence up to length 7/8 on one real arena_slot over {spawn with isolation tag 0/1/2, get_task with isolation 0/1/2, steal with isolation 0/1, spawn a mailed affinity proxy, mailbox claim}: nothing lost, handed out twice, handed to a non-matching taker, or refused while a matching task is in the pool. Fault legs: the copy of the functor into its task throws inside task_group::run / defer and the group keeps being used. A worker recalled for a higher-priority arena leaves with a non-empty pool and a later waiter in a lower slot must find the tasks; a task_group whose wait left by an exception is used again.",
    "C02": " Bounded-queue legs with a failing push (a sleeper must be woken by the next successful push); address-waiter bucket collisions; execute slot hand-over. rw_mutex downgrade must wake readers asleep in lock_shared; enqueue under soft limit 0 with two priority levels.",
    "C03": " Every exception object thrown by a body must be destroyed by the end (a second thrower must not overwrite the captured exception); bodies that call task_arena::execute on the arena they already run in and throw afterwards.",
    "C04": " Two cancellers of a leaf context (no children) and of a never-bound context. A parent that was reset keeps its bound children (cancel still reaches them).",
    "C05": " The partitioners' range pool (range_vector: ring indices, relative depths) is driven by EVERY operation sequence up to length 9/11 against a deque model; *-nested legs let a body re-enter the dispatcher on its own worker. One split of 2d/3d/nd ranges in which a non-divisible dimension sits next to a just-divisible one of grain 2^2..2^62 (the split must go to the divisible dimension at every magnitude).",
    "C06": " The *-nested leg lets every body re-enter the dispatcher on its own worker (a nested wait takes the not yet stolen sibling).",
    "C08": " Program sweeps: every assignment of section sequences over the lock's operation alphabet to 2-3 threads, incl. one scoped_lock object per thread reused across sections; two mutexes sharing an address-waiter bucket. rw_mutex: a writer that downgrades keeps the read lock until the readers asleep in lock_shared got in; speculative_spin_rw_mutex: a writer holding the real lock is visible to transactional readers (write_flag invariant).",
    "C09": " Program sweeps: EVERY assignment of operation sequences of length 1-2/3 over push/try_push/pop/try_pop to 2-3 threads (blocking programs only if the reference model cannot block forever), from empty / non-empty / page-boundary starts, with the k-th element copy throwing. A relaxed reference model classifies the recorded finding 'a failed push leaves an invalid entry that counts against the capacity' (also for stuck executions); anything else is a violation. One thread, 36 pushes around a lane killed by a failed page allocation, then a drain (sequential phases stay under the liveness oracle).",
    "C10": " Program sweeps over insert/erase/find/count/emplace/accessors on one key and on a parent/child bucket pair, incl. the table one insert below the growth threshold (segment enable + lazy rehash in the window); accessor exclusivity is tracked per element. erase(accessor) is modelled by element identity (it fails if its element was unlinked by another erase, even if the key was inserted again).",
    "C11": " Program sweeps over the growth calls from start sizes 0..16 incl. throwing constructors; a sequential leg drives growth calls across 2^31 and 2^32 (one-byte elements, address space only). Allocation-fault sweeps: the 1st..4th allocation inside the window throws for all two- and three-call programs, at(i) for every i < 40 afterwards works or throws; a grow_to_at_least that only waits must wait for the allocation of every segment below n.",
    "C12": " Program sweeps per container kind (3 threads x 1 op, 2 threads x 2 ops, constant hash), insert(node_type&&) of nodes extracted from another container, equal_range checked at the end; a count() that overlaps inserts of other keys is checked against bounds only (the property promises no atomic count). The key type has a move constructor that invalidates its source (like std::string); traversal through range() split in two / three rounds.",
    "C13": " Program sweeps: every assignment of push/try_pop sequences of length 1-2 to three threads on heaps of 0, 2..7 elements with priorities above / between / equal to the contents, four-thread batches, throwing copies. Quick tier includes the four-thread batches with one pop and three pushes.",
    "C14": " The buffer operation-sequence legs of C15 are part of this check (message conservation at buffering nodes); a *-nested leg lets task-based bodies re-enter the dispatcher. Lightweight nodes whose result nobody takes; the limiter blocks of C15 (threshold honoured also after decrements that arrive while nothing is outstanding).",
    "C15": " limiter_node<int,int>: decrement values 1/2, a decrement arriving while a put is in flight (sent from inside the successor). broadcast_node with every accept/reject pattern of three successors; a successor registration racing a put on an overwrite_node; a sequencer buffer that grows by several doublings at once.",
    "C16": " Three-thread leg: an isolated waiter must not take a non-isolated loop chunk that travels as an affinity proxy; priority leg: the single worker is handed over to the higher-priority arena instead of draining its low-priority pool. A slot index is not handed on before the leaving thread's on_scheduler_exit has finished; white-box: every push/pop sequence with isolation tags on one real mail_outbox.",
    "C17": " Foreign free of blocks from scalable_aligned_malloc whose user address lies inside a slot; calloc of a recycled (dirty) block of every swept size. Over-aligned requests whose size or size+alignment sits on a size-class boundary; the clean-up commands racing foreign frees; calloc products that are not representable.",
    "C18": " Back-reference table exhaustion (8400 live large objects) with memory staying exhausted from an explorer-chosen request on, for the default pool and for a memory pool over a drained default pool; pool_realloc histories; the allocator must never mremap/munmap raw memory of a user pool; realloc of slab / large / remappable blocks to unrepresentable sizes.",
    "C19": " First accesses after the container was move-constructed / move-assigned (element count and table must travel together). clear() / copy assignment make the next local() a first use again (both key kinds); collaborative_call_once called from a task whose group is cancelled.",
    "C20": " Suspension inside a critical task (priority flow-graph node) in a one-slot arena with a late foreign resume; owner recall when the thread leaving a foreign stack must start a fresh coroutine (three threads, step-driven).",
}
for _p, _t in _EXTRA.items():
    PROPS[_p]["explanation"] += _t

# the happens-before oracle (-hb) is on for every leg of the container harnesses whose element payload is announced
for _p, _h in (("C09", "c09_queue"), ("C02", "c09_queue"), ("C13", "c13_pq"), ("C10", "c10_chm"), ("C12", "c12_assoc")):
    for _l in PROPS[_p]["legs"]:
        if _l["harness"] == _h and "-hb" not in _l["flags"] and "-tso" not in _l["flags"] and _l["flags"]:
            _l["flags"].append("-hb")
