"""Exploration legs per property.  Each leg = one closed harness + parameters + (quick, thorough) deviation bound.
flags: -fp (HB-fingerprint pruning, enabled only after the differential check of DESIGN section 4), -hb (happens-before
oracle on announced payload), -tso (store buffers; variant=tso harness builds), -spurious."""

COMMON_ASSUMPTIONS = [
    "scheduling points are all std::atomic operations, futex/pthread/yield calls and harness markers; plain accesses are assumed ordered by them (payload checked separately by the happens-before oracle where -hb is listed)",
    "sequentially consistent execution of atomics unless the leg lists -tso (x86-TSO store buffers); weaker hardware models are not simulated",
    "exhaustive only within each leg's thread count, program, and deviation bound; executions run to completion",
    "oneTBB internal assertions are compiled out (shipped configuration); hooks H1-H3 (ONETBB_VERIF) replace pause/rdtsc loops by yield points",
]


def leg(name, harness, bound, params=None, flags=("-fp",), what="", tiers=("quick", "thorough"), weight=1.0, flags_thorough=()):
    return {"name": name, "harness": harness, "bound": bound, "params": params or {}, "flags": list(flags), "what": what,
            "tiers": tiers, "weight": weight, "flags_thorough": list(flags_thorough)}


PROPS = {}

# ------------------------------------------------------------------------------------------------ C09
PROPS["C09"] = {
    "explanation": "2-4 threads issue 1-2 queue operations each on one real concurrent_queue / concurrent_bounded_queue; every complete "
                   "history (call/return stamps) is checked by brute force against a sequential FIFO reference (std::deque with capacity), "
                   "including the sequential drain that follows; deadlock/livelock detection covers 'blocked calls complete'.",
    "legs": [
        leg("q-3t", "c09_queue", (2, 3), {"prog": "P11,P12|P21,G|G,G"}, what="2 producers + consumer, 4-byte elements"),
        leg("q-3t-big", "c09_queue", (2, 3), {"prog": "P11,P12|P21,G|G,G", "big": 1}, what="136-byte elements: one element per page, every push allocates a page"),
        leg("q-pagecross", "c09_queue", (2, 3), {"prog": "P11,P12|G,G|P21,G", "pre": 253, "keep": 2}, what="tickets straddle the 256-ticket page boundary of the lanes"),
        leg("q-keep", "c09_queue", (2, 2), {"prog": "G,G|G,P7|P8,G", "keep": 2}, what="non-empty start, pops race pushes"),
        leg("q-throw1", "c09_queue", (2, 2), {"prog": "P11,P12|P21,G|G,G", "big": 1, "throwat": 1}, what="first element copy in the window throws"),
        leg("q-throw2", "c09_queue", (2, 2), {"prog": "P11,P12|P21,G|G,G", "big": 1, "throwat": 2}, what="second element copy in the window throws"),
        leg("q-throw3", "c09_queue", (1, 2), {"prog": "P11,P12|P21,G|G,G", "throwat": 3}, what="third element copy throws (small elements)"),
        leg("bq-block", "c09_queue", (2, 3), {"prog": "P1,P2|Q,Q", "bounded": 1, "cap": 1}, what="capacity 1: blocking push vs blocking pop"),
        leg("bq-block3", "c09_queue", (2, 2), {"prog": "P1|P2|Q,Q", "bounded": 1, "cap": 1}, what="two blocked pushers, one popper"),
        leg("bq-try", "c09_queue", (2, 3), {"prog": "T1,T2|G,T3|G", "bounded": 1, "cap": 1}, what="try_push fails only when full"),
        leg("bq-neg", "c09_queue", (2, 2), {"prog": "Q|Q|P1,P2", "bounded": 1, "cap": 2}, what="negative size: two blocked pops, then pushes"),
        leg("bq-neg-try", "c09_queue", (2, 2), {"prog": "Q|G,T5|P1", "bounded": 1, "cap": 1}, what="blocked pop outstanding while try ops run"),
        leg("bq-abort", "c09_queue", (1, 2), {"prog": "Q|Q|P7|A", "bounded": 1, "cap": 4}, what="abort wakes blocked pops without losing the pushed item", weight=1.5),
        leg("bq-abort-push", "c09_queue", (1, 2), {"prog": "P1,P2|A|G", "bounded": 1, "cap": 1, "keep": 0}, what="abort wakes a blocked push"),
        leg("bq-setcap", "c09_queue", (2, 2), {"prog": "P1,P2|C2,G", "bounded": 1, "cap": 1}, what="capacity raised while a push may be blocked"),
        leg("bq-big", "c09_queue", (2, 2), {"prog": "P1,P2|Q,G|T3", "bounded": 1, "cap": 2, "big": 1}, what="bounded queue with one element per page"),
    ],
}
